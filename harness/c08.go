//go:build verif

package gobl

import (
	"strconv"

	"github.com/invopop/gobl/head"
	"github.com/invopop/gobl/internal/vrt"
	"github.com/invopop/gobl/note"
	"github.com/invopop/gobl/schema"
)

// C08 — the header digest makes every change to the document evident. Data and control flow of the digest:
// serialisation, canonicalisation and SHA-256 are injective uninterpreted functions in symbolic runs (the content
// of a document is an abstract token); native replays build real documents and real digests.

func c08Doc(token int64) *schema.Object {
	if vrt.Symbolic() {
		doc := &schema.Object{}
		vrt.BindContent(doc, token)
		return doc
	}
	// identifiers are fixed so that the content is a function of the token alone
	msg := &note.Message{Content: "content " + strconv.FormatInt(token, 10)}
	msg.UUID = "0190c2a6-7c2a-7000-8000-000000000002"
	doc, err := schema.NewObject(msg)
	if err != nil {
		panic(err)
	}
	return doc
}

// c08DigestIs: the header carries exactly the digest of the content token.
func c08DigestIs(e *Envelope, token int64) bool {
	if e.Head == nil || e.Head.Digest == nil {
		return false
	}
	if vrt.Symbolic() {
		return vrt.And(e.Head.Digest.Algorithm == "sha256", e.Head.Digest.Value == vrt.DigestOf(token))
	}
	d := c08Doc(token)
	if d.Calculate() != nil {
		return false
	}
	want, err := (&Envelope{Document: d}).Digest()
	return err == nil && e.Head.Digest.Algorithm == want.Algorithm && e.Head.Digest.Value == want.Value
}

func H_C08_Digest() {
	t1 := vrt.Int64In("content", 0, 2)
	t2 := vrt.Int64In("edited", 0, 2)
	structOK := vrt.Choice("struct-valid", 2) == 1
	signed := vrt.Choice("signed", 2) == 1
	env := &Envelope{Head: &head.Header{UUID: "0190c2a6-7c2a-7000-8000-000000000001"}, Document: c08Doc(t1)}
	if vrt.Symbolic() {
		vrt.SetStub("document.Calculate", true)
		vrt.SetStub("validate.struct", structOK)
	} else if !structOK {
		return // the struct-validation outcome cannot be forced natively
	}
	err := env.calculate()
	vrt.Assert(err == nil, "calculates")
	if err != nil {
		return
	}
	vrt.Assert(c08DigestIs(env, t1), "digest-is-a-function-of-the-document-alone")
	old := *env.Head.Digest
	if signed {
		env.Signatures = append(env.Signatures, c09Sign(env.Head, 0))
	}
	v1 := env.Validate()
	vrt.Assert((v1 == nil) == structOK, "calculated-envelope-validates-iff-its-parts-do")
	// change the document without recalculating
	env.Document = c08Doc(t2)
	v2 := env.Validate()
	if t2 != t1 {
		vrt.Assert(v2 != nil, "changed-document-fails-validation")
	} else {
		vrt.Assert((v2 == nil) == structOK, "same-content-still-validates")
	}
	if v2 == nil {
		vrt.Assert(c08DigestIs(env, t2), "valid-implies-digest-of-current-content")
	}
	// recalculate: the digest follows the content
	if env.calculate() != nil {
		vrt.Assert(false, "recalculates")
		return
	}
	vrt.Assert(c08DigestIs(env, t2), "recalculated-digest-is-of-the-new-content")
	same := vrt.And(env.Head.Digest.Algorithm == old.Algorithm, env.Head.Digest.Value == old.Value)
	vrt.Assert(vrt.Iff(same, t1 == t2), "digest-differs-iff-content-differs")
}
