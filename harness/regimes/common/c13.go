//go:build verif

package common

import "github.com/invopop/gobl/internal/vrt"

// H_C13_Luhn: ComputeLuhnCheckDigit equals the closed-form Luhn sum, for every digit string of length 1..10.
func H_C13_Luhn() {
	n := 1 + vrt.Choice("n", 10)
	s := ""
	sum := 0
	ds := make([]int, n)
	for k := 0; k < n; k++ {
		b := vrt.ByteIn("d"+string(rune('a'+k)), '0', '9')
		s += string([]byte{b})
		ds[k] = int(b - '0')
	}
	// reference: from the right, every first, third, ... digit is doubled; doubled digit d contributes 2d-9 when 2d>9
	for k := 0; k < n; k++ {
		d := ds[n-1-k]
		if k%2 == 0 {
			d = 2*d - 9*((2*d)/10)
		}
		sum += d
	}
	want := byte('0' + (10-sum%10)%10)
	got := ComputeLuhnCheckDigit(s)
	vrt.Assert(len(got) == 1, "luhn-one-digit")
	if len(got) == 1 {
		vrt.Assert(got[0] == want, "luhn-value")
	}
}
