//go:build verif

package mx

import (
	"github.com/invopop/gobl/cbc"
	"github.com/invopop/gobl/internal/vrt"
)

func c13Digit(b byte) bool  { return vrt.And(b >= '0', b <= '9') }
func c13Upper(b byte) bool  { return vrt.And(b >= 'A', b <= 'Z') }
func c13Prefix(b byte) bool { return vrt.Or(c13Upper(b), b == '&') }
func c13Homo(b byte) bool   { return vrt.Or(c13Upper(b), c13Digit(b)) }

// refMX: RFC = 3 (company) or 4 (person) letters (A-Z, & - and N-tilde, outside ASCII), six digits
// (a date, not checked), three homoclave characters A-Z0-9. No check digit is validated by the regime.
func refMX(s string) bool {
	if len(s) != 12 && len(s) != 13 {
		return false
	}
	p := len(s) - 9
	ok := true
	for i := 0; i < p; i++ {
		ok = vrt.And(ok, c13Prefix(s[i]))
	}
	for i := p; i < p+6; i++ {
		ok = vrt.And(ok, c13Digit(s[i]))
	}
	for i := p + 6; i < len(s); i++ {
		ok = vrt.And(ok, c13Homo(s[i]))
	}
	return ok
}

func H_C13_MX() {
	n := 11 + vrt.Choice("n", 4)
	s := vrt.ASCIIString("c", n)
	err := ValidateTaxCode(cbc.Code(s))
	vrt.Assert(vrt.Iff(err == nil, refMX(s)), "mx-accept-iff-rfc-format")
	typ := DetermineTaxCodeType(cbc.Code(s))
	if err == nil {
		vrt.Assert((typ == TaxIdentityTypePerson) == (len(s) == 13), "mx-person-iff-thirteen")
		vrt.Assert((typ == TaxIdentityTypeCompany) == (len(s) == 12), "mx-company-iff-twelve")
	}
}

// Normalisation (MX): idempotent, separators and case do not matter, digits and letters are kept.
func H_C13_MX_Normalize() {
	n := 1 + vrt.Choice("n", 4)
	s := vrt.ASCIIString("c", n)
	once := NormalizeTaxCode(cbc.Code(s))
	twice := NormalizeTaxCode(once)
	vrt.Assert(once == twice, "mx-normalisation-idempotent")
	// the kept characters are exactly the letters (upper-cased), digits and '&' of the input, in order
	want := make([]byte, 0, n)
	for i := 0; i < n; i++ {
		b := s[i]
		if vrt.And(b >= 'a', b <= 'z') {
			b -= 32
		}
		if vrt.Or(c13Homo(b), b == '&') {
			want = append(want, b)
		}
	}
	vrt.Assert(string(once) == string(want), "mx-normalisation-keeps-exactly-the-code-characters")
}
