//go:build verif

package fr

import (
	"github.com/invopop/gobl/cbc"
	"github.com/invopop/gobl/internal/vrt"
	"github.com/invopop/gobl/tax"
)

// C13 (normalisation, FR): a nine-character code (every ASCII string, optionally written with the country prefix
// in either case and with a separator after the third character) that is a valid SIREN gains the two VAT check
// digits in front, keeps its nine digits, then validates as a VAT code; anything else of that length is left as the
// generic normaliser leaves it; normalising again changes nothing.
func H_C13_FR_Normalize() {
	s := vrt.ASCIIString("c", 9)
	for i := 0; i < 9; i++ {
		// the code characters proper: the generic normaliser's own behaviour on separators is decided in H_C13_NormalizeGeneric
		vrt.Assume(vrt.Or(c13Digit(s[i]), vrt.And(s[i] >= 'A', s[i] <= 'Z')))
	}
	// a code starting with the country's own letters would lose them as a prefix: decided in the generic harness
	vrt.Assume(!vrt.And(s[0] == 'F', s[1] == 'R'))
	text := s
	if vrt.Thorough() {
		switch vrt.Choice("sep", 3) {
		case 1:
			text = s[:3] + " " + s[3:]
		case 2:
			text = s[:3] + "." + s[3:6] + "-" + s[6:]
		}
		switch vrt.Choice("prefix", 3) {
		case 1:
			text = "FR" + text
		case 2:
			text = "fr " + text
		}
	} else if vrt.Choice("written", 2) == 1 {
		// quick tier: the bare code and one fully decorated spelling
		text = "fr " + s[:3] + "." + s[3:6] + "-" + s[6:]
	}
	id := &tax.Identity{Country: "FR", Code: cbc.Code(text)}
	normalizeTaxIdentity(id)
	once := string(id.Code)
	if validateSIRENTaxCode(cbc.Code(s)) == nil {
		vrt.Assert(len(once) == 11 && once[2:] == s, "fr-siren-keeps-its-digits-after-the-check-digits")
		vrt.Assert(validateVATTaxCode(id.Code) == nil, "fr-normalised-siren-validates-as-vat-code")
	} else {
		vrt.Assert(once == s, "fr-other-code-left-as-written")
	}
	normalizeTaxIdentity(id)
	vrt.Assert(string(id.Code) == once, "fr-normalisation-idempotent")
}
