//go:build verif

package fr

import (
	"github.com/invopop/gobl/cbc"
	"github.com/invopop/gobl/internal/vrt"
)

func c13Digit(b byte) bool { return vrt.And(b >= '0', b <= '9') }

// refFR: 11 digits; the two leading digits are the key of the 9-digit SIREN: (SIREN*100 + 12) mod 97
// (equivalently (12 + 3*(SIREN mod 97)) mod 97, since 100 = 3 mod 97).
func refFR(s string) bool {
	if len(s) != 11 {
		return false
	}
	ok := true
	for i := 0; i < 11; i++ {
		ok = vrt.And(ok, c13Digit(s[i]))
	}
	siren := 0
	for i := 2; i < 11; i++ {
		siren = siren*10 + int(s[i]-'0')
	}
	key := int(s[0]-'0')*10 + int(s[1]-'0')
	return vrt.And(ok, key == (siren*100+12)%97)
}

func H_C13_FR() {
	n := 10 + vrt.Choice("n", 3)
	s := vrt.ASCIIString("c", n)
	err := validateVATTaxCode(cbc.Code(s))
	vrt.Assert(vrt.Iff(err == nil, refFR(s)), "fr-accept-iff-format-and-check")
}

func H_C13_FR_SingleDigit() {
	k := vrt.Choice("k", 11)
	bs := vrt.ASCIIBytes("c", 11)
	other := vrt.ByteIn("o", '0', '9')
	vrt.Assume(other != bs[k])
	bs2 := append([]byte{}, bs...)
	bs2[k] = other
	e1 := validateVATTaxCode(cbc.Code(string(bs)))
	e2 := validateVATTaxCode(cbc.Code(string(bs2)))
	vrt.Assert(!(e1 == nil && e2 == nil), "fr-single-digit-error-detected")
}

// H_C13_FR_SIREN: 9 digits with a Luhn check digit.
func H_C13_FR_SIREN() {
	n := 8 + vrt.Choice("n", 3)
	s := vrt.ASCIIString("c", n)
	err := validateSIRENTaxCode(cbc.Code(s))
	ok := n == 9
	sum := 0
	if n == 9 {
		for i := 0; i < 9; i++ {
			ok = vrt.And(ok, c13Digit(s[i]))
		}
		for k := 0; k < 8; k++ {
			d := int(s[7-k] - '0')
			if k%2 == 0 {
				d = 2*d - 9*((2*d)/10)
			}
			sum += d
		}
		ok = vrt.And(ok, int(s[8]-'0') == (10-sum%10)%10)
	}
	vrt.Assert(vrt.Iff(err == nil, ok), "fr-siren-accept-iff-format-and-check")
}
