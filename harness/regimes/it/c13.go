//go:build verif

package it

import (
	"github.com/invopop/gobl/cbc"
	"github.com/invopop/gobl/internal/vrt"
)

func c13Digit(b byte) bool { return vrt.And(b >= '0', b <= '9') }

// refIT: Partita IVA, 11 digits, last digit = Luhn check digit of the first ten.
func refIT(s string) bool {
	if len(s) != 11 {
		return false
	}
	ok := true
	for i := 0; i < 11; i++ {
		ok = vrt.And(ok, c13Digit(s[i]))
	}
	sum := 0
	for k := 0; k < 10; k++ {
		d := int(s[9-k] - '0')
		if k%2 == 0 {
			d = 2*d - 9*((2*d)/10)
		}
		sum += d
	}
	return vrt.And(ok, int(s[10]-'0') == (10-sum%10)%10)
}

func H_C13_IT() {
	n := 10 + vrt.Choice("n", 3)
	s := vrt.ASCIIString("c", n)
	err := validateTaxCode(cbc.Code(s))
	vrt.Assert(vrt.Iff(err == nil, refIT(s)), "it-accept-iff-format-and-check")
}

func H_C13_IT_SingleDigit() {
	k := vrt.Choice("k", 11)
	bs := vrt.ASCIIBytes("c", 11)
	other := vrt.ByteIn("o", '0', '9')
	vrt.Assume(other != bs[k])
	bs2 := append([]byte{}, bs...)
	bs2[k] = other
	e1 := validateTaxCode(cbc.Code(string(bs)))
	e2 := validateTaxCode(cbc.Code(string(bs2)))
	vrt.Assert(!(e1 == nil && e2 == nil), "it-single-digit-error-detected")
}
