//go:build verif

package nl

import (
	"github.com/invopop/gobl/cbc"
	"github.com/invopop/gobl/internal/vrt"
)

func c13Digit(b byte) bool { return vrt.And(b >= '0', b <= '9') }

// refNL: 9 digits + 'B' + 2 digits; valid when the 9-digit number passes the "elfproef"
// (weights 9..2 over the first eight digits, sum mod 11 = ninth digit, remainder 10 counted as 0)
// or the whole "NL…B.." string passes ISO 7064 MOD 97-10 (letters as 10..35).
func refNL(s string) bool {
	if len(s) != 12 {
		return false
	}
	ok := s[9] == 'B'
	for i := 0; i < 12; i++ {
		if i != 9 {
			ok = vrt.And(ok, c13Digit(s[i]))
		}
	}
	sum := 0
	for i := 0; i < 8; i++ {
		sum += (9 - i) * int(s[i]-'0')
	}
	r := sum % 11
	if r > 9 {
		r = 0
	}
	elf := r == int(s[8]-'0')
	// MOD 97-10 over "NL"+digits+"B"+digits with letters as two-digit numbers: N=23, L=21, B=11
	m := 2321
	for i := 0; i < 9; i++ {
		m = m*10 + int(s[i]-'0')
	}
	m = m*100 + 11
	m = m*10 + int(s[10]-'0')
	m = m*10 + int(s[11]-'0')
	return vrt.And(ok, vrt.Or(elf, m%97 == 1))
}

func H_C13_NL() {
	n := 11 + vrt.Choice("n", 3)
	s := vrt.ASCIIString("c", n)
	err := validateTaxCode(cbc.Code(s))
	vrt.Assert(vrt.Iff(err == nil, refNL(s)), "nl-accept-iff-format-and-check")
}

// H_C13_NL_Digits: digit alphabet at the digit positions (all 10^11 codes, symbolic): accepted iff a check passes.
func H_C13_NL_Digits() {
	bs := make([]byte, 12)
	for i := range bs {
		bs[i] = vrt.ByteIn("d"+string(rune('a'+i)), '0', '9')
	}
	bs[9] = 'B'
	s := string(bs)
	err := validateTaxCode(cbc.Code(s))
	vrt.Assert(vrt.Iff(err == nil, refNL(s)), "nl-digits-accept-iff-check")
}

// H_C13_NL_Format: every ASCII string of length 11..13: accepted only with the national format.
func H_C13_NL_Format() {
	n := 11 + vrt.Choice("n", 3)
	s := vrt.ASCIIString("c", n)
	err := validateTaxCode(cbc.Code(s))
	if err == nil {
		ok := n == 12
		if ok {
			ok = s[9] == 'B'
			for i := 0; i < 12; i++ {
				if i != 9 {
					ok = vrt.And(ok, c13Digit(s[i]))
				}
			}
		}
		vrt.Assert(ok, "nl-accepted-only-with-format")
	}
}
