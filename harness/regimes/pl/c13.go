//go:build verif

package pl

import (
	"github.com/invopop/gobl/cbc"
	"github.com/invopop/gobl/internal/vrt"
)

func c13Digit(b byte) bool { return vrt.And(b >= '0', b <= '9') }

// refPL: NIP, 10 digits; first digit non-zero, second and third not both zero; weights 6,5,7,2,3,4,5,6,7 mod 11 = last digit.
func refPL(s string) bool {
	if len(s) != 10 {
		return false
	}
	ok := vrt.And(s[0] != '0', vrt.Or(s[1] != '0', s[2] != '0'))
	for i := 0; i < 10; i++ {
		ok = vrt.And(ok, c13Digit(s[i]))
	}
	w := [9]int{6, 5, 7, 2, 3, 4, 5, 6, 7}
	sum := 0
	for i := 0; i < 9; i++ {
		sum += w[i] * int(s[i]-'0')
	}
	return vrt.And(ok, sum%11 == int(s[9]-'0'))
}

func H_C13_PL() {
	n := 9 + vrt.Choice("n", 3)
	s := vrt.ASCIIString("c", n)
	err := validateTaxCode(cbc.Code(s))
	vrt.Assert(vrt.Iff(err == nil, refPL(s)), "pl-accept-iff-format-and-check")
}

func H_C13_PL_SingleDigit() {
	k := vrt.Choice("k", 10)
	bs := vrt.ASCIIBytes("c", 10)
	other := vrt.ByteIn("o", '0', '9')
	vrt.Assume(other != bs[k])
	bs2 := append([]byte{}, bs...)
	bs2[k] = other
	e1 := validateTaxCode(cbc.Code(string(bs)))
	e2 := validateTaxCode(cbc.Code(string(bs2)))
	vrt.Assert(!(e1 == nil && e2 == nil), "pl-single-digit-error-detected")
}
