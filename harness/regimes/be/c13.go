//go:build verif

package be

import (
	"github.com/invopop/gobl/cbc"
	"github.com/invopop/gobl/internal/vrt"
)

func c13Digit(b byte) bool { return vrt.And(b >= '0', b <= '9') }

// refBE: 9 digits, or 10 digits with a leading 0; (after left-padding to 10) second digit non-zero and
// the last two digits = 97 - (first eight digits mod 97).
func refBE(s string) bool {
	if len(s) == 9 {
		s = "0" + s
	} else if len(s) != 10 {
		return false
	}
	ok := vrt.And(s[0] == '0', s[1] != '0')
	for i := 0; i < 10; i++ {
		ok = vrt.And(ok, c13Digit(s[i]))
	}
	num := 0
	for i := 0; i < 8; i++ {
		num = num*10 + int(s[i]-'0')
	}
	last := int(s[8]-'0')*10 + int(s[9]-'0')
	return vrt.And(ok, last == 97-num%97)
}

func H_C13_BE() {
	n := 8 + vrt.Choice("n", 4)
	s := vrt.ASCIIString("c", n)
	err := validateTaxCode(cbc.Code(s))
	vrt.Assert(vrt.Iff(err == nil, refBE(s)), "be-accept-iff-format-and-check")
}
