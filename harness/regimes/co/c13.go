//go:build verif

package co

import (
	"github.com/invopop/gobl/cbc"
	"github.com/invopop/gobl/internal/vrt"
)

func c13Digit(b byte) bool { return vrt.And(b >= '0', b <= '9') }

// refCO: NIT, 9 or 10 digits; weights 3,7,13,17,19,23,29,37,41 (...) from the right over the body;
// r = sum mod 11; check digit = r if r < 2 else 11 - r.
func refCO(s string) bool {
	l := len(s)
	if l != 9 && l != 10 {
		return false
	}
	ok := true
	for i := 0; i < l; i++ {
		ok = vrt.And(ok, c13Digit(s[i]))
	}
	w := [9]int{3, 7, 13, 17, 19, 23, 29, 37, 41}
	sum := 0
	for k := 0; k < l-1; k++ {
		sum += w[k] * int(s[l-2-k]-'0')
	}
	r := sum % 11
	want := r
	if r >= 2 {
		want = 11 - r
	}
	return vrt.And(ok, int(s[l-1]-'0') == want)
}

func H_C13_CO() {
	n := 8 + vrt.Choice("n", 4)
	s := vrt.ASCIIString("c", n)
	err := validateTaxCode(cbc.Code(s))
	vrt.Assert(vrt.Iff(err == nil, refCO(s)), "co-accept-iff-format-and-check")
}
