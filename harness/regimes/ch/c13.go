//go:build verif

package ch

import (
	"github.com/invopop/gobl/cbc"
	"github.com/invopop/gobl/internal/vrt"
)

func c13Digit(b byte) bool { return vrt.And(b >= '0', b <= '9') }

// refCH: UID "E" + 9 digits; weights 5,4,3,2,7,6,5,4; check = 11 - sum mod 11, where 10 is invalid and 11 means 0.
func refCH(s string) bool {
	if len(s) != 10 {
		return false
	}
	ok := s[0] == 'E'
	for i := 1; i < 10; i++ {
		ok = vrt.And(ok, c13Digit(s[i]))
	}
	w := [8]int{5, 4, 3, 2, 7, 6, 5, 4}
	sum := 0
	for i := 0; i < 8; i++ {
		sum += w[i] * int(s[i+1]-'0')
	}
	r := sum % 11
	// r == 1 -> check would be 10: no valid code; r == 0 -> 0; else 11 - r
	return vrt.And(ok, vrt.And(r != 1, int(s[9]-'0') == (11-r)%11))
}

func H_C13_CH() {
	n := 9 + vrt.Choice("n", 3)
	s := vrt.ASCIIString("c", n)
	err := validateTaxCode(cbc.Code(s))
	vrt.Assert(vrt.Iff(err == nil, refCH(s)), "ch-accept-iff-format-and-check")
}

func H_C13_CH_SingleDigit() {
	k := 1 + vrt.Choice("k", 9)
	bs := vrt.ASCIIBytes("c", 10)
	other := vrt.ByteIn("o", '0', '9')
	vrt.Assume(other != bs[k])
	bs2 := append([]byte{}, bs...)
	bs2[k] = other
	e1 := validateTaxCode(cbc.Code(string(bs)))
	e2 := validateTaxCode(cbc.Code(string(bs2)))
	vrt.Assert(!(e1 == nil && e2 == nil), "ch-single-digit-error-detected")
}
