//go:build verif

package ch

import (
	"github.com/invopop/gobl/cbc"
	"github.com/invopop/gobl/internal/vrt"
	"github.com/invopop/gobl/tax"
)

// C13 (normalisation, CH): a valid UID written with any of the VAT suffixes in any letter case, with separators and
// an optional trailing separator, normalises to the bare code, and normalising again changes nothing.
func H_C13_CH_Normalize() {
	letter := func(name string, up byte) byte {
		b := vrt.ByteIn(name, 0, 127)
		vrt.Assume(vrt.Or(b == up, b == up+32))
		return b
	}
	sepBytes := []byte{' ', '.', '-', '(', ')'}
	sep := func(name string) string {
		k := vrt.Choice(name, len(sepBytes)+1)
		if k == len(sepBytes) {
			return ""
		}
		return string([]byte{sepBytes[k]})
	}
	text := "CHE" + sep("s0") + "284" + sep("s1") + "156.502"
	var suffix []byte
	switch vrt.Choice("suffix", 4) {
	case 1:
		suffix = []byte{letter("x0", 'M'), letter("x1", 'W'), letter("x2", 'S'), letter("x3", 'T')}
	case 2:
		suffix = []byte{letter("x0", 'T'), letter("x1", 'V'), letter("x2", 'A')}
	case 3:
		suffix = []byte{letter("x0", 'I'), letter("x1", 'V'), letter("x2", 'A')}
	}
	if len(suffix) > 0 {
		text += sep("s2") + string(suffix) + sep("s3")
	}
	id := &tax.Identity{Country: "CH", Code: cbc.Code(text)}
	normalizeTaxIdentity(id)
	vrt.Assert(string(id.Code) == "E284156502", "ch-code-with-suffix-normalises-to-the-bare-uid")
	first := id.Code
	normalizeTaxIdentity(id)
	vrt.Assert(id.Code == first, "ch-normalisation-is-idempotent")
	vrt.Assert(validateTaxCode(id.Code) == nil, "normalised-ch-code-validates")
}
