//go:build verif

package pt

import (
	"github.com/invopop/gobl/cbc"
	"github.com/invopop/gobl/internal/vrt"
)

func c13Digit(b byte) bool { return vrt.And(b >= '0', b <= '9') }

// refPT: NIF, 9 digits, an admissible prefix (1,2,3,5,6,8 or 45,70,71,72,74,75,77,78,79,90,91,98,99),
// weights 9..2 over the first eight, r = sum mod 11, check = 0 if r < 2 else 11 - r.
func refPT(s string) bool {
	if len(s) != 9 {
		return false
	}
	ok := true
	for i := 0; i < 9; i++ {
		ok = vrt.And(ok, c13Digit(s[i]))
	}
	a, b := s[0], s[1]
	one := vrt.Or(vrt.Or(vrt.Or(a == '1', a == '2'), vrt.Or(a == '3', a == '5')), vrt.Or(a == '6', a == '8'))
	two := vrt.Or(vrt.And(a == '4', b == '5'),
		vrt.Or(vrt.And(a == '7', vrt.And(b != '3', b != '6')),
			vrt.And(a == '9', vrt.Or(vrt.Or(b == '0', b == '1'), vrt.Or(b == '8', b == '9')))))
	sum := 0
	for i := 0; i < 8; i++ {
		sum += (9 - i) * int(s[i]-'0')
	}
	r := sum % 11
	want := 0
	if r >= 2 {
		want = 11 - r
	}
	return vrt.And(vrt.And(ok, vrt.Or(one, two)), int(s[8]-'0') == want)
}

func H_C13_PT() {
	n := 8 + vrt.Choice("n", 3)
	s := vrt.ASCIIString("c", n)
	err := validateTaxCode(cbc.Code(s))
	vrt.Assert(vrt.Iff(err == nil, refPT(s)), "pt-accept-iff-format-and-check")
}
