//go:build verif

package in

import (
	"github.com/invopop/gobl/cbc"
	"github.com/invopop/gobl/internal/vrt"
	"github.com/invopop/gobl/tax"
)

// C13 (normalisation, IN): a code written with or without the country prefix, in either letter case, normalises to
// the upper-cased bare code under country IN; idempotent.
func H_C13_IN_Normalize() {
	n := 1 + vrt.Choice("n", 3)
	s := vrt.ASCIIString("c", n)
	want := make([]byte, n)
	for i := 0; i < n; i++ {
		b := s[i]
		vrt.Assume(vrt.Or(vrt.And(b >= '0', b <= '9'), vrt.Or(vrt.And(b >= 'A', b <= 'Z'), vrt.And(b >= 'a', b <= 'z'))))
		if vrt.And(b >= 'a', b <= 'z') {
			b -= 32
		}
		want[i] = b
	}
	vrt.Assume(vrt.And(want[0] != 'I', want[0] != 'N'))
	prefix := []string{"", "IN", "in", "In-"}[vrt.Choice("prefix", 4)]
	id := &tax.Identity{Country: "IN", Code: cbc.Code(prefix + s)}
	normalizeTaxIdentity(id)
	vrt.Assert(id.Country == "IN", "in-country-kept")
	vrt.Assert(string(id.Code) == string(want), "in-prefix-removed-code-upper-cased")
	once := id.Code
	normalizeTaxIdentity(id)
	vrt.Assert(id.Code == once, "in-normalisation-idempotent")
}
