//go:build verif

package in

import (
	"github.com/invopop/gobl/cbc"
	"github.com/invopop/gobl/internal/vrt"
)

func c13Digit(b byte) bool { return vrt.And(b >= '0', b <= '9') }
func c13Upper(b byte) bool { return vrt.And(b >= 'A', b <= 'Z') }

// refIN: GSTIN: 2 digits (state), 5 letters + 4 digits + 1 letter (PAN), entity code 1-9 or A-Z, the letter Z,
// and a check character: Luhn mod 36 over the first 14 characters (values 0-9, A=10..Z=35; factor 1,2,1,2,...
// from the left; each product contributes quotient + remainder by 36; check = (36 - sum mod 36) mod 36).
func refIN(s string) bool {
	if len(s) != 15 {
		return false
	}
	ok := vrt.And(c13Digit(s[0]), c13Digit(s[1]))
	for i := 2; i < 7; i++ {
		ok = vrt.And(ok, c13Upper(s[i]))
	}
	for i := 7; i < 11; i++ {
		ok = vrt.And(ok, c13Digit(s[i]))
	}
	ok = vrt.And(ok, c13Upper(s[11]))
	ok = vrt.And(ok, vrt.Or(vrt.And(s[12] >= '1', s[12] <= '9'), c13Upper(s[12])))
	ok = vrt.And(ok, s[13] == 'Z')
	ok = vrt.And(ok, vrt.Or(c13Digit(s[14]), c13Upper(s[14])))
	val := func(b byte) int64 {
		return vrt.IteInt64(b <= '9', int64(b)-'0', int64(b)-'A'+10)
	}
	var sum int64
	for i := 0; i < 14; i++ {
		p := val(s[i])
		if i%2 == 1 {
			p *= 2
		}
		sum += p/36 + p%36
	}
	want := (36 - sum%36) % 36
	return vrt.And(ok, val(s[14]) == want)
}

func H_C13_IN() {
	n := 14 + vrt.Choice("n", 3)
	s := vrt.ASCIIString("c", n)
	err := validateTaxCode(cbc.Code(s))
	vrt.Assert(vrt.Iff(err == nil, refIN(s)), "in-accept-iff-format-and-check")
}
