//go:build verif

package br

import (
	"github.com/invopop/gobl/cbc"
	"github.com/invopop/gobl/internal/vrt"
)

func c13Digit(b byte) bool { return vrt.And(b >= '0', b <= '9') }

// refBR: CNPJ (Receita Federal): 14 digits; first check digit over the first 12 with weights
// 5,4,3,2,9,8,7,6,5,4,3,2, second over the first 13 with weights 6,5,4,3,2,9,8,7,6,5,4,3,2;
// each: r = sum mod 11, digit = 0 if r < 2 else 11 - r.
func refBR(s string) bool {
	if len(s) != 14 {
		return false
	}
	ok := true
	for i := 0; i < 14; i++ {
		ok = vrt.And(ok, c13Digit(s[i]))
	}
	w1 := []int{5, 4, 3, 2, 9, 8, 7, 6, 5, 4, 3, 2}
	w2 := []int{6, 5, 4, 3, 2, 9, 8, 7, 6, 5, 4, 3, 2}
	check := func(w []int, pos int) bool {
		sum := 0
		for i := range w {
			sum += w[i] * int(s[i]-'0')
		}
		r := sum % 11
		want := vrt.IteInt64(r < 2, 0, int64(11-r))
		return int64(s[pos]-'0') == want
	}
	return vrt.And(ok, vrt.And(check(w1, 12), check(w2, 13)))
}

func H_C13_BR() {
	n := 13 + vrt.Choice("n", 3)
	s := vrt.ASCIIString("c", n)
	err := validateTaxCode(cbc.Code(s))
	vrt.Assert(vrt.Iff(err == nil, refBR(s)), "br-accept-iff-format-and-check")
}
