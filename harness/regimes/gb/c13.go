//go:build verif

package gb

import (
	"github.com/invopop/gobl/cbc"
	"github.com/invopop/gobl/internal/vrt"
)

func c13Digit(b byte) bool { return vrt.And(b >= '0', b <= '9') }

// refGBCommercial: 9 digits (or 12: the same 9 followed by a 3-digit branch number, not all twelve zero).
// HMRC scheme: S = 8*d1 + 7*d2 + ... + 2*d7, cd = the two digits d8 d9 (0..96);
// "mod 97": (S + cd) mod 97 == 0; "mod 9755": (S + 55 + cd) mod 97 == 0.
// The admitted ranges of the seven-digit stem for each scheme are those of the source the regime file
// cites (ltns35/go-vat, itself the Braemoor jsvat rules): mod 97 not for stems 0100000..0999999,
// 9490001..9700000 or above 9990000; mod 9755 only for stems above 1000000.
func refGBCommercial(s string) bool {
	if len(s) != 9 && len(s) != 12 {
		return false
	}
	ok := true
	nz := false
	for i := 0; i < len(s); i++ {
		ok = vrt.And(ok, c13Digit(s[i]))
		nz = vrt.Or(nz, s[i] != '0')
	}
	sum := 0
	stem := 0
	for i := 0; i < 7; i++ {
		sum += (8 - i) * int(s[i]-'0')
		stem = stem*10 + int(s[i]-'0')
	}
	cd := int(s[7]-'0')*10 + int(s[8]-'0')
	old := vrt.And(vrt.And(cd < 97, (sum+cd)%97 == 0),
		vrt.And(stem < 9990001, vrt.And(vrt.Or(stem < 100000, stem > 999999), vrt.Or(stem < 9490001, stem > 9700000))))
	nw := vrt.And(vrt.And(cd < 97, (sum+55+cd)%97 == 0), stem > 1000000)
	return vrt.And(vrt.And(ok, nz), vrt.Or(old, nw))
}

// refGBSpecial: GD000..GD499 (government departments), HA500..HA999 (health authorities).
func refGBSpecial(s string) bool {
	if len(s) != 5 {
		return false
	}
	ok := vrt.And(c13Digit(s[2]), vrt.And(c13Digit(s[3]), c13Digit(s[4])))
	gd := vrt.And(vrt.And(s[0] == 'G', s[1] == 'D'), s[2] <= '4')
	ha := vrt.And(vrt.And(s[0] == 'H', s[1] == 'A'), s[2] >= '5')
	return vrt.And(ok, vrt.Or(gd, ha))
}

func H_C13_GB() {
	n := 8 + vrt.Choice("n", 3)
	s := vrt.ASCIIString("c", n)
	err := validateTaxCode(cbc.Code(s))
	vrt.Assert(vrt.Iff(err == nil, refGBCommercial(s)), "gb-accept-iff-format-and-mod97-or-9755")
}

func H_C13_GB_Branch() {
	n := 11 + vrt.Choice("n", 3)
	s := vrt.ASCIIString("c", n)
	err := validateTaxCode(cbc.Code(s))
	vrt.Assert(vrt.Iff(err == nil, refGBCommercial(s)), "gb-branch-accept-iff-format-and-mod97-or-9755")
}

func H_C13_GB_Special() {
	n := 4 + vrt.Choice("n", 3)
	s := vrt.ASCIIString("c", n)
	err := validateTaxCode(cbc.Code(s))
	vrt.Assert(vrt.Iff(err == nil, refGBSpecial(s)), "gb-special-accept-iff-gd-ha-range")
}
