//go:build verif

package ae

import (
	"github.com/invopop/gobl/cbc"
	"github.com/invopop/gobl/internal/vrt"
)

// refAE: the TRN is exactly fifteen digits (no check digit is published).
func refAE(s string) bool {
	if len(s) != 15 {
		return false
	}
	ok := true
	for i := 0; i < 15; i++ {
		ok = vrt.And(ok, vrt.And(s[i] >= '0', s[i] <= '9'))
	}
	return ok
}

func H_C13_AE() {
	n := 14 + vrt.Choice("n", 3)
	s := vrt.ASCIIString("c", n)
	err := validateTRNCode(cbc.Code(s))
	vrt.Assert(vrt.Iff(err == nil, refAE(s)), "ae-accept-iff-fifteen-digits")
}
