//go:build verif

package at

import (
	"github.com/invopop/gobl/cbc"
	"github.com/invopop/gobl/internal/vrt"
)

func c13Digit(b byte) bool { return vrt.And(b >= '0', b <= '9') }

// refAT: UID "U" + 8 digits; digits 2,4,6 doubled with digit-sum, check = (10 - (sum + 4) mod 10) mod 10.
func refAT(s string) bool {
	if len(s) != 9 {
		return false
	}
	ok := s[0] == 'U'
	for i := 1; i < 9; i++ {
		ok = vrt.And(ok, c13Digit(s[i]))
	}
	sum := 0
	for i := 0; i < 7; i++ {
		d := int(s[i+1] - '0')
		if i%2 == 1 {
			d = 2*d - 9*((2*d)/10)
		}
		sum += d
	}
	return vrt.And(ok, int(s[8]-'0') == (10-(sum+4)%10)%10)
}

func H_C13_AT() {
	n := 8 + vrt.Choice("n", 3)
	s := vrt.ASCIIString("c", n)
	err := validateTaxCode(cbc.Code(s))
	vrt.Assert(vrt.Iff(err == nil, refAT(s)), "at-accept-iff-format-and-check")
}

func H_C13_AT_SingleDigit() {
	k := 1 + vrt.Choice("k", 8)
	bs := vrt.ASCIIBytes("c", 9)
	other := vrt.ByteIn("o", '0', '9')
	vrt.Assume(other != bs[k])
	bs2 := append([]byte{}, bs...)
	bs2[k] = other
	e1 := validateTaxCode(cbc.Code(string(bs)))
	e2 := validateTaxCode(cbc.Code(string(bs2)))
	vrt.Assert(!(e1 == nil && e2 == nil), "at-single-digit-error-detected")
}
