//go:build verif

package de

import (
	"github.com/invopop/gobl/cbc"
	"github.com/invopop/gobl/internal/vrt"
)

func c13Digit(b byte) bool { return vrt.And(b >= '0', b <= '9') }

// refDE: 9 digits, first non-zero, ISO 7064 MOD 11,10 check digit (BZSt, USt-IdNr).
func refDE(s string) bool {
	if len(s) != 9 {
		return false
	}
	ok := s[0] != '0'
	for i := 0; i < 9; i++ {
		ok = vrt.And(ok, c13Digit(s[i]))
	}
	p := 10
	for i := 0; i < 8; i++ {
		m := (int(s[i]-'0') + p) % 10
		if m == 0 {
			m = 10
		}
		p = (2 * m) % 11
	}
	cd := (11 - p) % 10
	return vrt.And(ok, int(s[8]-'0') == cd)
}

func H_C13_DE() {
	n := 8 + vrt.Choice("n", 3)
	s := vrt.ASCIIString("c", n)
	err := validateTaxCode(cbc.Code(s))
	vrt.Assert(vrt.Iff(err == nil, refDE(s)), "de-accept-iff-format-and-check")
}

// H_C13_DE_SingleDigit: two accepted codes never differ in exactly one digit.
func H_C13_DE_SingleDigit() {
	k := vrt.Choice("k", 9)
	bs := vrt.ASCIIBytes("c", 9)
	other := vrt.ByteIn("o", '0', '9')
	vrt.Assume(other != bs[k])
	s := string(bs)
	bs2 := append([]byte{}, bs...)
	bs2[k] = other
	t := string(bs2)
	e1 := validateTaxCode(cbc.Code(s))
	e2 := validateTaxCode(cbc.Code(t))
	vrt.Assert(!(e1 == nil && e2 == nil), "de-single-digit-error-detected")
}
