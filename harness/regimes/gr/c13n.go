//go:build verif

package gr

import (
	"github.com/invopop/gobl/cbc"
	"github.com/invopop/gobl/internal/vrt"
	"github.com/invopop/gobl/l10n"
	"github.com/invopop/gobl/tax"
)

// C13 (normalisation, GR): whichever of the two country codes in use for Greece (EL, GR) the identity carries and
// whichever of them (in either letter case, or none) is written in front of the code, the normalised identity is
// the bare code under country EL, and normalising again changes nothing.
func H_C13_GR_Normalize() {
	n := 1 + vrt.Choice("n", 3)
	s := vrt.ASCIIString("c", n)
	for i := 0; i < n; i++ {
		vrt.Assume(vrt.Or(vrt.And(s[i] >= '0', s[i] <= '9'), vrt.And(s[i] >= 'A', s[i] <= 'Z')))
	}
	// the code proper does not itself begin with a country code
	vrt.Assume(vrt.And(s[0] != 'E', s[0] != 'G'))
	country := []l10n.TaxCountryCode{"EL", "GR"}[vrt.Choice("country", 2)]
	prefix := []string{"", "EL", "GR", "el", "gr "}[vrt.Choice("prefix", 5)]
	id := &tax.Identity{Country: country, Code: cbc.Code(prefix + s)}
	normalizeTaxIdentity(id)
	vrt.Assert(id.Country == "EL", "gr-country-is-el")
	vrt.Assert(string(id.Code) == s, "gr-prefix-removed-code-kept")
	once := id.Code
	normalizeTaxIdentity(id)
	vrt.Assert(id.Code == once, "gr-normalisation-idempotent")
}
