//go:build verif

package gr

import (
	"github.com/invopop/gobl/cbc"
	"github.com/invopop/gobl/internal/vrt"
)

func c13Digit(b byte) bool { return vrt.And(b >= '0', b <= '9') }

// refGR: AFM, 9 digits; sum of d[i]*2^(8-i) for the first eight, mod 11, mod 10 = last digit.
func refGR(s string) bool {
	if len(s) != 9 {
		return false
	}
	ok := true
	for i := 0; i < 9; i++ {
		ok = vrt.And(ok, c13Digit(s[i]))
	}
	w := [8]int{256, 128, 64, 32, 16, 8, 4, 2}
	sum := 0
	for i := 0; i < 8; i++ {
		sum += w[i] * int(s[i]-'0')
	}
	return vrt.And(ok, (sum%11)%10 == int(s[8]-'0'))
}

func H_C13_GR() {
	n := 8 + vrt.Choice("n", 3)
	s := vrt.ASCIIString("c", n)
	err := validateTaxCode(cbc.Code(s))
	vrt.Assert(vrt.Iff(err == nil, refGR(s)), "gr-accept-iff-format-and-check")
}
