//go:build verif

package es

import (
	"github.com/invopop/gobl/cbc"
	"github.com/invopop/gobl/internal/vrt"
)

func c13Digit(b byte) bool { return vrt.And(b >= '0', b <= '9') }

const c13Letters = "TRWAGMYFPDXBNJZSQVHLCKE"

func c13In(b byte, set string) bool {
	ok := false
	for i := 0; i < len(set); i++ {
		ok = vrt.Or(ok, b == set[i])
	}
	return ok
}

// c13LetterIs: letter == table[n mod 23]
func c13LetterIs(n int64, letter byte) bool {
	r := n % 23
	ok := false
	for i := 0; i < 23; i++ {
		ok = vrt.Or(ok, vrt.And(r == int64(i), letter == c13Letters[i]))
	}
	return ok
}

func c13Num(s string, from, to int) (int64, bool) {
	var n int64
	ok := true
	for i := from; i < to; i++ {
		ok = vrt.And(ok, c13Digit(s[i]))
		n = n*10 + int64(s[i]-'0')
	}
	return n, ok
}

// refDNI: eight digits and the letter TRWAGMYFPDXBNJZSQVHLCKE[number mod 23] (Ministerio del Interior).
func refDNI(s string) bool {
	n, ok := c13Num(s, 0, 8)
	return vrt.And(ok, c13LetterIs(n, s[8]))
}

// refNIE: X, Y or Z standing for 0, 1, 2, seven digits, same letter rule over the eight-digit number.
func refNIE(s string) bool {
	n, ok := c13Num(s, 1, 8)
	p := vrt.IteInt64(s[0] == 'X', 0, vrt.IteInt64(s[0] == 'Y', 1, 2))
	return vrt.And(vrt.And(ok, c13In(s[0], "XYZ")), c13LetterIs(p*10000000+n, s[8]))
}

// c13Control: the CIF control value of the seven digits: digits in even positions (2nd, 4th, 6th) summed, digits in
// odd positions doubled with their decimal digits summed; control = (10 - sum mod 10) mod 10.
func c13Control(s string) (int64, bool) {
	var sum int64
	ok := true
	for i := 1; i <= 7; i++ {
		ok = vrt.And(ok, c13Digit(s[i]))
		d := int64(s[i] - '0')
		if i%2 == 0 {
			sum += d
		} else {
			sum += vrt.IteInt64(2*d > 9, 2*d-9, 2*d)
		}
	}
	return (10 - sum%10) % 10, ok
}

// controlMatches: the ninth character is the control digit, or the control letter JABCDEFGHI[control].
func c13ControlMatches(s string, c int64, digit, letter bool) bool {
	const letters = "JABCDEFGHI"
	ok := false
	if digit {
		ok = vrt.Or(ok, int64(s[8])-'0' == c)
	}
	if letter {
		for i := 0; i < 10; i++ {
			ok = vrt.Or(ok, vrt.And(c == int64(i), s[8] == letters[i]))
		}
	}
	return ok
}

// H_C13_ES_Personal: nine-character codes that start with a digit or X/Y/Z: accepted exactly per the DNI / NIE rule
// (the all-zero DNI, which is never issued, is left to the implementation).
func H_C13_ES_Personal() {
	n := 8 + vrt.Choice("n", 3)
	s := vrt.ASCIIString("c", n)
	if n == 9 {
		vrt.Assume(vrt.Or(c13Digit(s[0]), c13In(s[0], "XYZ")))
	}
	err := validateTaxCode(cbc.Code(s))
	if n != 9 {
		vrt.Assert(err != nil, "es-wrong-length-refused")
		return
	}
	zero := true
	for i := 0; i < 8; i++ {
		zero = vrt.And(zero, s[i] == '0')
	}
	want := vrt.Or(vrt.And(c13Digit(s[0]), refDNI(s)), refNIE(s))
	vrt.Assert(vrt.Or(zero, vrt.Iff(err == nil, want)), "es-dni-nie-accept-iff-letter-matches")
}

// H_C13_ES_Org: nine-character codes that start with an organisation letter (ABCDEFGHJNPQRSUVW) or K/L/M: accepted only
// if the seven digits are digits and the ninth character is the control digit or control letter; and every code
// that satisfies the official rule strictly (letter for P,Q,R,S,W,N types, digit for A,B,E,H, either otherwise) is accepted.
func H_C13_ES_Org() {
	s := vrt.ASCIIString("c", 9)
	vrt.Assume(c13In(s[0], "ABCDEFGHJNPQRSUVWKLM"))
	err := validateTaxCode(cbc.Code(s))
	c, ok := c13Control(s)
	lenient := vrt.And(ok, c13ControlMatches(s, c, true, true))
	vrt.Assert(vrt.Implies(err == nil, lenient), "es-org-accepted-only-with-matching-control")
	mustLetter := c13In(s[0], "PQRSWN")
	mustDigit := c13In(s[0], "ABEH")
	strict := vrt.And(ok, vrt.Or(
		vrt.And(mustLetter, c13ControlMatches(s, c, false, true)),
		vrt.Or(vrt.And(mustDigit, c13ControlMatches(s, c, true, false)),
			vrt.And(vrt.And(!mustLetter, !mustDigit), c13ControlMatches(s, c, true, true)))))
	vrt.Assert(vrt.Implies(vrt.And(strict, c13In(s[0], "ABCDEFGHJNPQRSUVW")), err == nil), "es-org-officially-valid-accepted")
}

// H_C13_ES_SingleDigit: no two accepted DNI differ in exactly one digit (23 is prime to every power of ten).
func H_C13_ES_SingleDigit() {
	pos := vrt.Choice("pos", 8)
	a := vrt.ASCIIBytes("a", 9)
	d := vrt.ByteIn("d", '0', '9')
	vrt.Assume(c13Digit(a[0]))
	vrt.Assume(d != a[pos])
	b := make([]byte, 9)
	copy(b, a)
	b[pos] = d
	ea := validateTaxCode(cbc.Code(string(a)))
	eb := validateTaxCode(cbc.Code(string(b)))
	vrt.Assert(!(ea == nil && eb == nil), "es-dni-single-digit-change-detected")
}
