//go:build verif

package num

import "github.com/invopop/gobl/internal/vrt"

const dom52 = int64(1) << 52

// pow10 is the reference power of ten (table, no loop).
var specPow10 = [...]int64{1, 10, 100, 1000, 10000, 100000, 1000000, 10000000, 100000000, 1000000000,
	10000000000, 100000000000, 1000000000000, 10000000000000, 100000000000000, 1000000000000000,
	10000000000000000, 100000000000000000, 1000000000000000000}

// specRHA is round-half-away-from-zero of n/d for d > 0, integers only.
func specRHA(n, d int64) int64 {
	// floor((2|n| + d) / 2d) with sign
	neg := n < 0
	if neg {
		n = -n
	}
	q := vrt.DivFloor(2*n+d, 2*d)
	if neg {
		return -q
	}
	return q
}

func specRescale(a Amount, exp uint32) Amount {
	if a.exp > exp {
		return Amount{specRHA(a.value, specPow10[a.exp-exp]), exp}
	}
	if a.exp < exp {
		return Amount{a.value * specPow10[exp-a.exp], exp}
	}
	return a
}

// H_C05_Rescale: Rescale(a, e) == round-half-away of the exact decimal, all values in the 2^52 domain.
func H_C05_Rescale() {
	v := vrt.Int64In("v", -dom52+1, dom52-1)
	e1 := uint32(vrt.Choice("e1", 10))
	e2 := uint32(vrt.Choice("e2", 10))
	a := Amount{v, e1}
	want := specRescale(a, e2)
	vrt.Assume(vrt.And(want.value > -dom52, want.value < dom52))
	got := a.Rescale(e2)
	vrt.Assert(got.exp == e2, "rescale-exp")
	vrt.Assert(got.value == want.value, "rescale-value")
}
