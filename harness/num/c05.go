//go:build verif

package num

import "github.com/invopop/gobl/internal/vrt"

// C05 — decimal amount arithmetic is exact with round-half-away-from-zero.
//
// Layer 0 (H_C05_L0_*): Rescale, Multiply, Divide — one float64 rounding chain
// each — are proved equal to the integer-only reference functions spec* below on
// the 2^52 domain, with the engine's float64 model inlined.
// Layer 1 (H_C05_L1_*): every other operation, with the three layer-0 methods
// replaced by sum* (= domain assumption + spec*).

const dom52 = int64(1) << 52

var specPow10 = [...]int64{1, 10, 100, 1000, 10000, 100000, 1000000, 10000000, 100000000, 1000000000,
	10000000000, 100000000000, 1000000000000, 10000000000000, 100000000000000, 1000000000000000,
	10000000000000000, 100000000000000000, 1000000000000000000}

// nexp is the number of exponents explored per operand (0..n-1).
func nexp() int {
	if vrt.Thorough() {
		return 10
	}
	return 5
}

func inDom(v int64) bool { return vrt.And(v > -dom52, v < dom52) }

// specRHA is n/d rounded half away from zero, d != 0, integers only, branch-free:
// |q| = floor((floor(2|n|/|d|) + 1) / 2), sign of n/d.
func specRHA(n, d int64) int64 {
	// rounding half away from zero is odd in n: it is computed on the sign-canonical orientation of n and
	// re-signed, so that the results for n and -n are syntactically opposite terms
	cn, flipped := vrt.Orient64(n)
	an := vrt.Abs64(cn)
	ad := vrt.Abs64(d)
	q := vrt.DivFloor(vrt.DivFloor(2*an, ad)+1, 2)
	r := vrt.IteInt64((cn < 0) != (d < 0), -q, q)
	if flipped {
		return -r
	}
	return r
}

func specRescale(a Amount, exp uint32) Amount {
	if a.exp > exp {
		return Amount{specRHA(a.value, specPow10[a.exp-exp]), exp}
	}
	if a.exp < exp {
		return Amount{a.value * specPow10[exp-a.exp], exp}
	}
	return a
}

func specMultiply(a, a2 Amount) Amount {
	return Amount{specRHA(a.value*a2.value, specPow10[a2.exp]), a.exp}
}

func specDivide(a, a2 Amount) Amount {
	return Amount{specRHA(a.value*specPow10[a2.exp], a2.value), a.exp}
}

// Summaries used by layer 1 and by the higher-level properties: the proven
// meaning of the operation on its proven domain.
// domRescale: the operand and the exact result fit the 2^52 domain (checked
// without wrap-around, before any int64 product is formed).
func domRescale(a Amount, exp uint32) bool {
	if a.exp < exp {
		return vrt.MulFits(a.value, specPow10[exp-a.exp], dom52)
	}
	return inDom(a.value)
}

func domMultiply(a, a2 Amount) bool {
	return vrt.And(vrt.And(inDom(a.value), inDom(a2.value)), vrt.MulFits(a.value, a2.value, dom52))
}

func domDivide(a, a2 Amount) bool {
	return vrt.And(vrt.And(inDom(a2.value), a2.value != 0), vrt.MulFits(a.value, specPow10[a2.exp], dom52))
}

// lemmaMaxExp: layer 0 is proved for the rounding-relevant exponents 0..lemmaMaxExp
// in every tier; the summaries are only usable inside that bound.
const lemmaMaxExp = 9

func sumRescale(a Amount, exp uint32) Amount {
	vrt.Assume(vrt.And(a.exp <= lemmaMaxExp, exp <= lemmaMaxExp))
	vrt.Assume(domRescale(a, exp))
	return specRescale(a, exp)
}

func sumMultiply(a, a2 Amount) Amount {
	vrt.Assume(a2.exp <= lemmaMaxExp)
	vrt.Assume(domMultiply(a, a2))
	return specMultiply(a, a2)
}

func sumDivide(a, a2 Amount) Amount {
	vrt.Assume(a2.exp <= lemmaMaxExp)
	vrt.Assume(domDivide(a, a2))
	return specDivide(a, a2)
}

func symAmount(name string) Amount {
	v := vrt.Int64In(name+".v", -dom52+1, dom52-1)
	e := uint32(vrt.Choice(name+".e", nexp()))
	return Amount{v, e}
}

// ---------------------------------------------------------------- layer 0

// lemmaAmount: value symbolic in the domain, exponent enumerated over 0..lemmaMaxExp.
func lemmaAmount(name string) Amount {
	v := vrt.Int64In(name+".v", -dom52+1, dom52-1)
	return Amount{v, uint32(vrt.Choice(name+".e", lemmaMaxExp+1))}
}

// passAmount: exponent symbolic (it is only passed through by Multiply/Divide).
func passAmount(name string) Amount {
	v := vrt.Int64In(name+".v", -dom52+1, dom52-1)
	return Amount{v, vrt.Uint32In(name+".e", 0, 18)}
}

func H_C05_L0_Rescale() {
	a := lemmaAmount("a")
	e2 := uint32(vrt.Choice("e2", lemmaMaxExp+1))
	vrt.Assume(domRescale(a, e2))
	want := specRescale(a, e2)
	got := a.Rescale(e2)
	vrt.Assert(got.exp == e2, "rescale-exp")
	vrt.Assert(got.value == want.value, "rescale-value")
	if a.exp <= e2 {
		// raising precision never loses information
		back := specRescale(got, a.exp)
		vrt.Assert(back.value == a.value, "rescale-up-lossless")
	}
}

func H_C05_L0_Multiply() {
	a := passAmount("a")
	b := lemmaAmount("b")
	vrt.Assume(domMultiply(a, b))
	want := specMultiply(a, b)
	got := a.Multiply(b)
	vrt.Assert(got.exp == a.exp, "multiply-exp")
	vrt.Assert(got.value == want.value, "multiply-value")
}

func H_C05_L0_Divide() {
	a := passAmount("a")
	b := lemmaAmount("b")
	vrt.Assume(domDivide(a, b))
	want := specDivide(a, b)
	got := a.Divide(b)
	vrt.Assert(got.exp == a.exp, "divide-exp")
	vrt.Assert(got.value == want.value, "divide-value")
}

// ---------------------------------------------------------------- layer 1

func maxExp(a, b uint32) uint32 {
	if a > b {
		return a
	}
	return b
}

func H_C05_L1_AddSub() {
	a := symAmount("a")
	b := symAmount("b")
	vrt.Assume(domRescale(b, a.exp))
	br := specRescale(b, a.exp)
	sum := a.Add(b)
	vrt.Assert(sum.exp == a.exp, "add-exp")
	vrt.Assert(sum.value == a.value+br.value, "add-value")
	dif := a.Subtract(b)
	vrt.Assert(dif.exp == a.exp, "sub-exp")
	vrt.Assert(dif.value == a.value-br.value, "sub-value")
	if b.exp <= a.exp {
		// no greater precision: exact, nothing lost
		vrt.Assert(sum.value == a.value+b.value*specPow10[a.exp-b.exp], "add-exact")
		vrt.Assert(dif.value == a.value-b.value*specPow10[a.exp-b.exp], "sub-exact")
	}
}

func H_C05_L1_Compare() {
	a := symAmount("a")
	b := symAmount("b")
	e := maxExp(a.exp, b.exp)
	vrt.Assume(vrt.And(domRescale(a, e), domRescale(b, e)))
	x := a.value * specPow10[e-a.exp]
	y := b.value * specPow10[e-b.exp]
	c := a.Compare(b)
	vrt.Assert(vrt.Iff(c == -1, x < y), "compare-lt")
	vrt.Assert(vrt.Iff(c == 0, x == y), "compare-eq")
	vrt.Assert(vrt.Iff(c == 1, x > y), "compare-gt")
	vrt.Assert(vrt.Iff(a.Equals(b), x == y), "equals")
	vrt.Assert(b.Compare(a) == -c, "compare-antisymmetric")
	// threshold rules
	for op := greaterThan; op <= notZero; op++ {
		r := ThresholdRule{threshold: b, operator: op}
		got := r.compare(a)
		switch op {
		case greaterThan:
			vrt.Assert(vrt.Iff(got, x > y), "threshold-gt")
		case greaterEqualThan:
			vrt.Assert(vrt.Iff(got, x >= y), "threshold-ge")
		case lessThan:
			vrt.Assert(vrt.Iff(got, x < y), "threshold-lt")
		case lessEqualThan:
			vrt.Assert(vrt.Iff(got, x <= y), "threshold-le")
		default:
			vrt.Assert(vrt.Iff(got, x != y), "threshold-ne")
		}
	}
}

func H_C05_L1_Split() {
	a := symAmount("a")
	x := vrt.IntIn("x", 1, 1<<20)
	p, rest := a.Split(x)
	vrt.Assert(vrt.And(p.exp == a.exp, rest.exp == a.exp), "split-exp")
	vrt.Assert(p.value == specRHA(a.value, int64(x)), "split-part")
	vrt.Assert(p.value*int64(x-1)+rest.value == a.value, "split-adds-back")
}

func H_C05_L1_RescaleFamily() {
	a := symAmount("a")
	e := uint32(vrt.Choice("e", nexp()))
	f := uint32(vrt.Choice("f", nexp()))
	vrt.Assume(vrt.And(domRescale(a, e), domRescale(a, f)))
	vrt.Assume(domRescale(a, a.exp+e))
	up := a.RescaleUp(e)
	if e > a.exp {
		vrt.Assert(up == specRescale(a, e), "rescaleup-raises")
	} else {
		vrt.Assert(up == a, "rescaleup-keeps")
	}
	down := a.RescaleDown(e)
	if e < a.exp {
		w := specRescale(a, e)
		vrt.Assert(vrt.And(down.value == w.value, down.exp == w.exp), "rescaledown-lowers")
	} else {
		vrt.Assert(down == a, "rescaledown-keeps")
	}
	if e <= f {
		rr := a.RescaleRange(e, f)
		w := a
		if a.exp < e {
			w = specRescale(a, e)
		} else if a.exp > f {
			w = specRescale(a, f)
		}
		vrt.Assert(vrt.And(rr.value == w.value, rr.exp == w.exp), "rescalerange")
	}
	mp := a.MatchPrecision(Amount{0, e})
	vrt.Assert(mp == a.RescaleUp(e), "matchprecision")
	us := a.Upscale(e)
	w := specRescale(a, a.exp+e)
	vrt.Assert(vrt.And(us.value == w.value, us.exp == a.exp+e), "upscale")
	ds := a.Downscale(e)
	var we uint32
	if e <= a.exp {
		we = a.exp - e
	}
	w2 := specRescale(a, we)
	vrt.Assert(vrt.And(ds.value == w2.value, ds.exp == we), "downscale")
}

func H_C05_L1_Signs() {
	a := symAmount("a")
	n := a.Negate()
	vrt.Assert(vrt.And(n.value == -a.value, n.exp == a.exp), "negate")
	vrt.Assert(n.Negate() == a, "negate-involution")
	vrt.Assert(a.Invert() == n, "invert")
	ab := a.Abs()
	vrt.Assert(vrt.And(ab.value >= 0, vrt.Or(ab.value == a.value, ab.value == -a.value)), "abs")
	vrt.Assert(vrt.Iff(a.IsZero(), a.value == 0), "iszero")
	vrt.Assert(vrt.Iff(a.IsNegative(), a.value < 0), "isnegative")
	vrt.Assert(vrt.Iff(a.IsPositive(), a.value > 0), "ispositive")
	p := Percentage{a}
	vrt.Assert(p.Negate().amount == n, "pct-negate")
	vrt.Assert(p.Invert().amount == n, "pct-invert")
}

func H_C05_L1_PercentageOfFrom() {
	a := symAmount("a")
	p := Percentage{symAmount("p")}
	d := specPow10[p.amount.exp]
	// Of: a × p at a's precision
	vrt.Assume(domMultiply(a, p.amount))
	of := p.Of(a)
	vrt.Assert(of.exp == a.exp, "of-exp")
	vrt.Assert(of.value == specRHA(a.value*p.amount.value, d), "of-value")
	// Factor: 1 + p at p's precision
	fc := p.Factor()
	vrt.Assert(vrt.And(fc.value == p.amount.value+d, fc.exp == p.amount.exp), "factor")
}

func H_C05_L1_Remove() {
	a := symAmount("a")
	p := Percentage{symAmount("p")}
	d := specPow10[p.amount.exp]
	vrt.Assume(p.amount.value+d != 0)
	vrt.Assume(vrt.MulFits(a.value, d, dom52))
	rm := a.Remove(p)
	want := specRHA(a.value*d, p.amount.value+d)
	vrt.Assert(rm.exp == a.exp, "remove-exp")
	vrt.Assert(rm.value == want, "remove-value")
	fr := p.From(a)
	vrt.Assert(fr.exp == a.exp, "from-exp")
	vrt.Assert(fr.value == a.value-want, "from-value")
}

func H_C05_L1_PercentageAmount() {
	a := symAmount("a")
	vrt.Assume(vrt.MulFits(a.value, 10000, dom52))
	p := PercentageFromAmount(a)
	vrt.Assert(vrt.And(p.amount.value == a.value, p.amount.exp == a.exp+2), "pct-from-amount")
	back := p.Amount()
	vrt.Assert(vrt.And(back.value == a.value, back.exp == a.exp), "pct-amount-roundtrip")
	q := Percentage{a}
	am := q.Amount()
	if a.exp >= 2 {
		vrt.Assert(vrt.And(am.value == a.value, am.exp == a.exp-2), "pct-amount")
	} else {
		vrt.Assert(vrt.And(am.value == specRHA(a.value*100, specPow10[a.exp]), am.exp == 0), "pct-amount-low")
	}
	e := uint32(vrt.Choice("e", nexp()))
	vrt.Assume(domRescale(a, e))
	w := specRescale(a, e)
	r := q.Rescale(e)
	vrt.Assert(vrt.And(r.amount.value == w.value, r.amount.exp == e), "pct-rescale")
	b := symAmount("b")
	vrt.Assert(q.Equals(Percentage{b}) == a.Equals(b), "pct-equals")
	vrt.Assert(q.Compare(Percentage{b}) == a.Compare(b), "pct-compare")
}
