//go:build verif

package num

import "github.com/invopop/gobl/internal/vrt"

// C06 — amount / percentage text codec round-trips and accepts only the schema.

const maxInt64 = int64(^uint64(0) >> 1)

func c06MaxLen() int {
	if vrt.Thorough() {
		return 8
	}
	return 5
}

// refDecimal reads a string known to match ^-?[0-9]+(\.[0-9]+)?$ by Horner's rule.
// fits is false when the magnitude does not fit in int64.
func refDecimal(s string) (val int64, exp uint32, fits bool) {
	neg := false
	i := 0
	if len(s) > 0 && s[0] == '-' {
		neg = true
		i = 1
	}
	fits = true
	seenDot := false
	for ; i < len(s); i++ {
		c := s[i]
		if c == '.' {
			seenDot = true
			continue
		}
		d := int64(c - '0')
		if val > (maxInt64-d)/10 {
			fits = false
			return
		}
		val = val*10 + d
		if seenDot {
			exp++
		}
	}
	if neg {
		val = -val
	}
	return
}

// H_C06_ParseAmount: AmountFromString accepts exactly the published pattern (values that fit) and reads the denoted decimal.
func H_C06_ParseAmount() {
	n := vrt.Choice("n", c06MaxLen()+1)
	s := vrt.String("s", n)
	pat := Amount{}.JSONSchema().Pattern
	vrt.Assert(pat == vrt.SchemaPattern("num/amount.json"), "amount-pattern-published")
	inPat := vrt.MatchesPattern(s, pat)
	a, err := AmountFromString(s)
	if err == nil {
		vrt.Known("C06-sign-inside-part", c06SignInside(s))
		vrt.Assert(inPat, "accepted-only-if-pattern")
		val, exp, fits := refDecimal(s)
		vrt.Assert(fits, "accepted-only-if-fits")
		vrt.Assert(vrt.And(a.value == val, a.exp == exp), "reads-denoted-decimal")
	} else {
		vrt.Assume(inPat)
		_, _, fits := refDecimal(s)
		vrt.Assert(!fits, "rejects-only-outside-pattern-or-overflow")
	}
}

// c06SignInside: a part (after the optional leading '-', split on '.') begins with '+' or '-'.
func c06SignInside(s string) bool {
	i := 0
	if len(s) > 0 && s[0] == '-' {
		i = 1
	}
	res := false
	start := true
	for ; i < len(s); i++ {
		c := s[i]
		if start {
			res = vrt.Or(res, vrt.Or(c == '+', c == '-'))
		}
		start = c == '.'
	}
	return res
}

// H_C06_UnmarshalAmount: the JSON entry point (quoted or bare) agrees with the string parser and with the pattern.
func H_C06_UnmarshalAmount() {
	n := vrt.Choice("n", c06MaxLen()+1)
	b := vrt.Bytes("b", n)
	pat := Amount{}.JSONSchema().Pattern
	a := Amount{7, 7}
	err := a.UnmarshalJSON(b)
	if string(b) == "null" {
		vrt.Assert(vrt.And(err == nil, a == Amount{7, 7}), "null-is-noop")
		return
	}
	inner := b
	if len(b) > 2 && b[0] == '"' && b[len(b)-1] == '"' {
		inner = b[1 : len(b)-1]
	}
	inPat := vrt.MatchesPattern(string(inner), pat)
	if err == nil {
		vrt.Known("C06-sign-inside-part", c06SignInside(string(inner)))
		vrt.Assert(inPat, "json-accepted-only-if-pattern")
		val, exp, _ := refDecimal(string(inner))
		vrt.Assert(vrt.And(a.value == val, a.exp == exp), "json-reads-denoted-decimal")
	} else {
		vrt.Assert(a == Amount{7, 7}, "json-error-leaves-target")
		vrt.Assume(inPat)
		_, _, fits := refDecimal(string(inner))
		vrt.Assert(!fits, "json-rejects-only-outside-pattern-or-overflow")
	}
}

// H_C06_ParseLongDigits: digit strings around the 64-bit boundary (alphabet: digits and one dot).
func H_C06_ParseLongDigits() {
	nInt := 17 + vrt.Choice("ni", 4) // 17..20 integer digits
	nFrac := vrt.Choice("nf", 3)     // 0..2 fraction digits
	neg := vrt.Choice("neg", 2) == 1
	s := ""
	if neg {
		s = "-"
	}
	for k := 0; k < nInt; k++ {
		s += string([]byte{vrt.ByteIn("d"+string(rune('a'+k)), '0', '9')})
	}
	if nFrac > 0 {
		s += "."
		for k := 0; k < nFrac; k++ {
			s += string([]byte{vrt.ByteIn("f"+string(rune('a'+k)), '0', '9')})
		}
	}
	a, err := AmountFromString(s)
	val, exp, fits := refDecimal(s)
	if err == nil {
		vrt.Known("C06-overflow-wrap", !fits)
		vrt.Assert(fits, "long-accepted-only-if-fits")
		vrt.Assert(vrt.And(a.value == val, a.exp == exp), "long-reads-denoted-decimal")
	} else {
		vrt.Assert(!fits, "long-rejects-only-overflow")
	}
}

// H_C06_WriteAmount: String() matches the pattern and reads back to the same value and precision.
func H_C06_WriteAmount() {
	v := vrt.Int64("v")
	e := uint32(vrt.Choice("e", 19))
	a := Amount{v, e}
	s := a.String()
	pat := Amount{}.JSONSchema().Pattern
	vrt.Known("C06-minint-print", v == -maxInt64-1)
	vrt.Assert(vrt.MatchesPattern(s, pat), "written-matches-pattern")
	back, err := AmountFromString(s)
	vrt.Known("C06-minint-print", v == -maxInt64-1)
	vrt.Assert(err == nil, "written-parses")
	if err == nil {
		vrt.Known("C06-minint-print", v == -maxInt64-1)
		vrt.Assert(vrt.And(back.value == v, back.exp == e), "write-read-roundtrip")
	}
	t, terr := a.MarshalText()
	vrt.Assert(vrt.And(terr == nil, string(t) == s), "marshaltext-is-string")
}

// H_C06_ParsePercentage: PercentageFromString accepts the published pattern (and, as documented, the
// same number without the % sign as a factor, and the empty string as zero), reading value/100 for the % form.
func H_C06_ParsePercentage() {
	n := vrt.Choice("n", c06MaxLen()+1)
	s := vrt.String("s", n)
	pat := Percentage{}.JSONSchema().Pattern
	vrt.Assert(pat == vrt.SchemaPattern("num/percentage.json"), "percentage-pattern-published")
	apat := Amount{}.JSONSchema().Pattern
	p, err := PercentageFromString(s)
	if n == 0 {
		vrt.Assert(vrt.And(err == nil, p == Percentage{}), "empty-is-zero")
		return
	}
	withPct := vrt.MatchesPattern(s, pat)
	asFactor := vrt.MatchesPattern(s, apat)
	if err == nil {
		vrt.Known("C06-sign-inside-part", c06SignInside(s))
		vrt.Assert(vrt.Or(withPct, asFactor), "pct-accepted-only-if-pattern")
		if s[n-1] == '%' {
			val, exp, _ := refDecimal(s[:n-1])
			vrt.Assert(vrt.And(p.amount.value == val, p.amount.exp == exp+2), "pct-reads-hundredths")
		} else {
			val, exp, _ := refDecimal(s)
			vrt.Assert(vrt.And(p.amount.value == val, p.amount.exp == exp), "pct-factor-reads-decimal")
		}
	} else {
		vrt.Assert(!vrt.Or(withPct, asFactor), "pct-rejects-only-outside-pattern")
	}
}

// H_C06_WritePercentage: String() matches the pattern, reads back to the same value, and the text is stable.
func H_C06_WritePercentage() {
	v := vrt.Int64In("v", -dom52/10000, dom52/10000)
	ne := 5
	if vrt.Thorough() {
		ne = 8
	}
	e := uint32(vrt.Choice("e", ne))
	p := Percentage{Amount{v, e}}
	s := p.String()
	pat := Percentage{}.JSONSchema().Pattern
	vrt.Assert(vrt.MatchesPattern(s, pat), "pct-written-matches-pattern")
	back, err := PercentageFromString(s)
	vrt.Assert(err == nil, "pct-written-parses")
	if err == nil {
		vrt.Assert(back.Equals(p), "pct-write-read-same-value")
		vrt.Assert(back.String() == s, "pct-text-stable")
	}
}

// H_C06_UnmarshalQuoted: JSON strings (quoted payloads of 4 and 5 arbitrary bytes - longer than the fully symbolic
// bound of the quick tier): an amount is accepted only if the payload matches the amount pattern; a percentage only
// if it matches the percentage pattern or, as documented, the amount pattern (a factor).
func H_C06_UnmarshalQuoted() {
	n := 4 + vrt.Choice("n", 2)
	payload := vrt.Bytes("p", n)
	b := append(append([]byte{'"'}, payload...), '"')
	apat := Amount{}.JSONSchema().Pattern
	ppat := Percentage{}.JSONSchema().Pattern
	if vrt.Choice("type", 2) == 0 {
		a := Amount{7, 7}
		err := a.UnmarshalJSON(b)
		if err == nil {
			vrt.Assert(vrt.MatchesPattern(string(payload), apat), "quoted-amount-accepted-only-if-pattern")
		} else {
			vrt.Assert(a == Amount{7, 7}, "quoted-amount-error-leaves-target")
		}
		return
	}
	p := Percentage{Amount{7, 7}}
	err := p.UnmarshalJSON(b)
	if err == nil {
		vrt.Assert(vrt.Or(vrt.MatchesPattern(string(payload), ppat), vrt.MatchesPattern(string(payload), apat)), "quoted-percentage-accepted-only-if-pattern")
	} else {
		vrt.Assert(p == Percentage{Amount{7, 7}}, "quoted-percentage-error-leaves-target")
	}
}
