//go:build verif

package num

import "github.com/invopop/gobl/internal/vrt"

const tbl = "00010203040506070809101112131415161718192021222324252627282930313233343536373839404142434445464748495051525354555657585960616263646566676869707172737475767778798081828384858687888990919293949596979899"

// H_T_SliceSym: engine self-test — slicing with symbolic bounds.
func H_T_SliceSym() {
	i := vrt.IntIn("i", 0, 99)
	s := tbl[i*2 : i*2+2]
	vrt.Assert(len(s) == 2, "len2")
	vrt.Assert(int(s[0]-'0')*10+int(s[1]-'0') == i, "digits")
}
