//go:build verif

package l10n

import "github.com/invopop/gobl/internal/vrt"

// C11 (leaf level): a code the Go side accepts matches the published pattern.
func H_C11_L10nCode() {
	pat := vrt.SchemaValue("l10n/code.json", "pattern")
	vrt.Assert(pat != "", "l10n-code-schema-published")
	max := 4
	if vrt.Thorough() {
		max = 6
	}
	n := 1 + vrt.Choice("n", max)
	s := vrt.ASCIIString("s", n)
	if Code(s).Validate() == nil {
		vrt.Assert(vrt.MatchesPattern(s, pat), "accepted-l10n-code-matches-published-pattern")
	}
}
