//go:build verif

package gobl

import (
	"github.com/invopop/gobl/cbc"
	"github.com/invopop/gobl/dsig"
	"github.com/invopop/gobl/head"
	"github.com/invopop/gobl/internal/vrt"
	"github.com/invopop/gobl/uuid"
)

// C09 (library path): Envelope.Verify accepts exactly when a supplied key is the signer's and the current
// header still contains the header as signed.

func c09Str(name string) string { return string([]byte{vrt.ByteIn(name, 'a', 'b')}) }

func c09Header(name string) *head.Header {
	h := &head.Header{UUID: uuid.UUID("0190c2a6-7c2a-7000-8000-00000000000" + c09Str(name+".uuid")), Digest: &dsig.Digest{Algorithm: "sha256", Value: c09Str(name + ".dig")}}
	if vrt.Choice(name+".stamp", 2) == 1 {
		h.Stamps = []*head.Stamp{{Provider: cbc.Key(c09Str(name + ".sp")), Value: c09Str(name + ".sv")}}
	}
	if vrt.Choice(name+".tag", 2) == 1 {
		h.Tags = []string{c09Str(name + ".t")}
	}
	if vrt.Choice(name+".notes", 2) == 1 {
		h.Notes = c09Str(name + ".notes")
	}
	return h
}

func c09Contains(h, h2 *head.Header) bool {
	ok := vrt.And(h.UUID == h2.UUID, h.Digest.Value == h2.Digest.Value)
	for _, s2 := range h2.Stamps {
		found := false
		for _, s := range h.Stamps {
			found = vrt.Or(found, vrt.And(s.Provider == s2.Provider, s.Value == s2.Value))
		}
		ok = vrt.And(ok, found)
	}
	for _, t2 := range h2.Tags {
		found := false
		for _, t := range h.Tags {
			found = vrt.Or(found, t == t2)
		}
		ok = vrt.And(ok, found)
	}
	if h2.Notes != "" {
		ok = vrt.And(ok, h.Notes == h2.Notes)
	}
	return ok
}

var (
	c09Priv []*dsig.PrivateKey // native replays: real ES256 keys
	c09Pub  = []*dsig.PublicKey{{}, {}}
)

// c09Sign produces a signature of the header by key number k: a real JWS natively, a contract stub symbolically.
func c09Sign(h *head.Header, k int) *dsig.Signature {
	if vrt.Symbolic() {
		cp := *h // the payload is what was signed at this moment
		return vrt.NewSignature(c09Pub[k], &cp).(*dsig.Signature)
	}
	if c09Priv == nil {
		c09Priv = []*dsig.PrivateKey{dsig.NewES256Key(), dsig.NewES256Key()}
		c09Pub = []*dsig.PublicKey{c09Priv[0].Public(), c09Priv[1].Public()}
	}
	sig, err := c09Priv[k].Sign(h)
	if err != nil {
		panic(err)
	}
	return sig
}

func H_C09_Verify() {
	signed := c09Header("s")
	signer := vrt.Choice("signer", 2)
	sig := c09Sign(signed, signer)
	env := &Envelope{Head: c09Header("h"), Signatures: []*dsig.Signature{sig}}
	var keys []*dsig.PublicKey
	supplied := false
	switch vrt.Choice("keys", 4) {
	case 1:
		keys = []*dsig.PublicKey{c09Pub[0]}
		supplied = signer == 0
	case 2:
		keys = []*dsig.PublicKey{c09Pub[1]}
		supplied = signer == 1
	case 3:
		keys = []*dsig.PublicKey{c09Pub[1], c09Pub[0]}
		supplied = true
	}
	contains := c09Contains(env.Head, signed)
	err := env.Verify(keys...)
	if len(keys) == 0 {
		vrt.Assert(vrt.Iff(err == nil, contains), "no-keys-checks-header-only")
	} else {
		vrt.Assert(vrt.Iff(err == nil, vrt.And(supplied, contains)), "verify-ok-iff-signer-key-supplied-and-header-contains-signed")
	}
	e2 := env.VerifySignature(sig, keys...)
	vrt.Assert((e2 == nil) == (err == nil), "verify-signature-agrees")
}
