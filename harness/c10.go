//go:build verif

package gobl

import (
	"strconv"

	"github.com/invopop/gobl/bill"
	"github.com/invopop/gobl/cal"
	"github.com/invopop/gobl/cbc"
	"github.com/invopop/gobl/dsig"
	"github.com/invopop/gobl/head"
	"github.com/invopop/gobl/internal/vrt"
	"github.com/invopop/gobl/note"
	"github.com/invopop/gobl/num"
	"github.com/invopop/gobl/org"
	"github.com/invopop/gobl/schema"
	"github.com/invopop/gobl/tax"
)

// C10 — envelope lifecycle: every operation's outcome over any history is the one a small reference state
// machine predicts from four facts (digest matches the document, document valid (for signing), signatures
// present, header still contains each signed header). The real Envelope methods and the real header / stamp
// validation run; the document is an abstract content token (C08's stubs), its validity is a harness-fixed pair
// of flags (valid / valid once signed), JWS signing and verification are contract stubs; native replays use
// real documents, real ES256 keys and real signatures.

var c10Priv = []*dsig.PrivateKey{{}, {}}

func c10Keys() {
	if vrt.Symbolic() {
		vrt.BindKeyPair(c10Priv[0], c09Pub[0])
		vrt.BindKeyPair(c10Priv[1], c09Pub[1])
		return
	}
	if c09Priv == nil {
		c09Priv = []*dsig.PrivateKey{dsig.NewES256Key(), dsig.NewES256Key()}
		c09Pub = []*dsig.PublicKey{c09Priv[0].Public(), c09Priv[1].Public()}
	}
	c10Priv = c09Priv
}

// c10Doc: symbolically an abstract content token (validity comes from the stub flags); natively a real document
// of the wanted kind: a message (valid), a message without content (invalid), an invoice without a code
// (valid until the envelope is signed).
func c10Doc(token int64, valid, validSigned bool) *schema.Object {
	if vrt.Symbolic() {
		return c08Doc(token)
	}
	tok := strconv.FormatInt(token, 10)
	var payload interface{}
	switch {
	case !valid:
		msg := &note.Message{Title: "content " + tok}
		msg.UUID = "0190c2a6-7c2a-7000-8000-000000000002"
		payload = msg
	case !validSigned:
		price := num.MakeAmount(1000, 2)
		inv := &bill.Invoice{Regime: tax.WithRegime("ES"), Series: "A", Currency: "EUR", IssueDate: cal.MakeDate(2024, 1, 1),
			Supplier: &org.Party{Name: "S", TaxID: &tax.Identity{Country: "ES", Code: "B98602642"}},
			Customer: &org.Party{Name: "C", TaxID: &tax.Identity{Country: "ES", Code: "54387763P"}},
			Lines:    []*bill.Line{{Quantity: num.MakeAmount(1, 0), Item: &org.Item{Name: "content " + tok, Price: &price}, Taxes: tax.Set{{Category: "VAT", Rate: "standard"}}}},
		}
		inv.UUID = "0190c2a6-7c2a-7000-8000-000000000003"
		payload = inv
	default:
		return c08Doc(token)
	}
	doc, err := schema.NewObject(payload)
	if err != nil {
		panic(err)
	}
	return doc
}

// c10DigestIs: the header carries the digest of (a calculated copy of) doc.
func c10DigestIs(e *Envelope, doc *schema.Object, token int64) bool {
	if vrt.Symbolic() {
		return c08DigestIs(e, token)
	}
	if e.Head == nil || e.Head.Digest == nil || doc.Calculate() != nil {
		return false
	}
	want, err := (&Envelope{Document: doc}).Digest()
	return err == nil && e.Head.Digest.Algorithm == want.Algorithm && e.Head.Digest.Value == want.Value
}

// reference state
type c10Sig struct {
	key    int
	digest int64 // content token whose digest the signed header carried
	stamps []head.Stamp
}

type c10Ref struct {
	calculated bool  // schema and digest present
	digested   int64 // content token the header digest was computed from
	content    int64 // content token of the current document
	stamps     []head.Stamp
	sigs       []c10Sig
}

func (r *c10Ref) valid(docValid, docValidSigned bool) bool {
	signed := len(r.sigs) > 0
	ok := r.calculated && docValid && (!signed || docValidSigned) && (len(r.stamps) == 0 || signed)
	return vrt.And(ok, r.digested == r.content)
}

// contains: the current header still contains what signature s signed (digest and every signed stamp)
func (r *c10Ref) contains(s c10Sig) bool {
	ok := r.digested == s.digest
	for _, st := range s.stamps {
		found := false
		for _, cur := range r.stamps {
			found = vrt.Or(found, vrt.And(cur.Provider == st.Provider, cur.Value == st.Value))
		}
		ok = vrt.And(ok, found)
	}
	return ok
}

func (r *c10Ref) stamp(p cbc.Key, v string) {
	for k := range r.stamps {
		if r.stamps[k].Provider == p {
			r.stamps[k].Value = v
			return
		}
	}
	r.stamps = append(r.stamps, head.Stamp{Provider: p, Value: v})
}

func c10Check(env *Envelope, ref *c10Ref, step string) {
	vrt.Assert(len(env.Signatures) == len(ref.sigs), "signature-count-follows-the-reference@"+step)
	for _, s := range env.Signatures {
		vrt.Assert(s != nil && s.JSONWebSignature() != nil, "every-signature-entry-is-a-real-signature@"+step)
	}
	vrt.Assert(env.Signed() == (len(ref.sigs) > 0), "signed-flag@"+step)
}

func H_C10_History() {
	c10Keys()
	n := 3
	if vrt.Thorough() {
		n = 5
	}
	docValid := vrt.Choice("doc-invalid", 2) == 0
	docValidSigned := vrt.Choice("doc-invalid-once-signed", 2) == 0
	if vrt.Symbolic() {
		vrt.SetStub("document.Calculate", true)
		vrt.SetStub("document.valid", docValid)
		vrt.SetStub("document.valid.signed", docValidSigned)
	}
	doc := func(token int64) *schema.Object { return c10Doc(token, docValid, docValidSigned) }
	t0 := vrt.Int64In("content0", 0, 2)
	env := &Envelope{Head: &head.Header{UUID: "0190c2a6-7c2a-7000-8000-000000000001"}, Document: doc(t0)}
	ref := &c10Ref{content: t0, digested: -1}
	if vrt.Choice("start-calculated", 2) == 1 {
		if env.calculate() != nil {
			vrt.Assert(false, "initial-calculate")
			return
		}
		ref.calculated, ref.digested = true, t0
	}
	for k := 0; k < n; k++ {
		step := string(rune('0' + k))
		switch vrt.Choice("op"+step, 9) {
		case 0: // calculate
			err := env.Calculate()
			vrt.Assert(err == nil, "calculate-succeeds@"+step)
			ref.calculated, ref.digested = true, ref.content
			vrt.Assert(c10DigestIs(env, doc(ref.content), ref.content), "calculate-refreshes-the-digest@"+step)
		case 1: // edit the document without recalculating
			t := vrt.Int64In("content"+step+"e", 0, 2)
			env.Document = doc(t)
			ref.content = t
		case 2, 3: // sign with key 0 / key 1
			key := vrt.Choice("op"+step, 9) - 2
			before := len(ref.sigs)
			err := env.Sign(c10Priv[key])
			// the signature is appended, then the whole envelope must validate as a signed one
			cand := *ref
			cand.sigs = append(append([]c10Sig{}, ref.sigs...), c10Sig{key: key, digest: ref.digested, stamps: append([]head.Stamp{}, ref.stamps...)})
			want := cand.valid(docValid, docValidSigned)
			vrt.Assert((err == nil) == want, "only-valid-envelopes-with-matching-digest-can-be-signed@"+step)
			if err == nil {
				ref.sigs = cand.sigs
				vrt.Assert(len(env.Signatures) == before+1, "signing-appends-one-signature@"+step)
			} else {
				ref.sigs = nil
				vrt.Assert(len(env.Signatures) == 0, "failed-signing-leaves-the-envelope-unsigned@"+step)
			}
		case 4: // unsign
			env.Unsign()
			ref.sigs = nil
		case 5: // add or overwrite stamp "pa" (symbolic value)
			v := c09Str("stamp" + step)
			env.Head.AddStamp(&head.Stamp{Provider: "pa", Value: v})
			ref.stamp("pa", v)
		case 6: // add stamp "pb"
			env.Head.AddStamp(&head.Stamp{Provider: "pb", Value: "b"})
			ref.stamp("pb", "b")
		case 7: // validate
			err := env.Validate()
			vrt.Assert((err == nil) == ref.valid(docValid, docValidSigned), "validate-follows-the-four-facts@"+step)
		case 8: // verify with key 0
			err := env.Verify(c09Pub[0])
			want := len(ref.sigs) > 0
			for _, s := range ref.sigs {
				want = vrt.And(want, vrt.And(s.key == 0, ref.contains(s)))
			}
			vrt.Assert((err == nil) == want, "verify-follows-signer-and-containment@"+step)
		}
		c10Check(env, ref, step)
	}
	// final observation: validate and verify once more
	err := env.Validate()
	vrt.Assert((err == nil) == ref.valid(docValid, docValidSigned), "final-validate-follows-the-four-facts")
	verr := env.Verify(c09Pub[0], c09Pub[1])
	want := len(ref.sigs) > 0
	for _, s := range ref.sigs {
		want = vrt.And(want, ref.contains(s))
	}
	vrt.Assert((verr == nil) == want, "final-verify-follows-containment")
}
