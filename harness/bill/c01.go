//go:build verif

package bill

import (
	"github.com/invopop/gobl/cal"
	"github.com/invopop/gobl/cbc"
	"github.com/invopop/gobl/currency"
	"github.com/invopop/gobl/internal/vrt"
	"github.com/invopop/gobl/num"
	"github.com/invopop/gobl/org"
	"github.com/invopop/gobl/pay"
	"github.com/invopop/gobl/tax"
)

// C01 — document totals equal exact decimal arithmetic with rounding (half away from zero) only at the
// documented points. Unit layer: every calculation step, from an arbitrary symbolic pre-state, yields
// exactly the rounding of the exact product / percentage at the documented working precision.

var c01Pow10 = [...]int64{1, 10, 100, 1000, 10000, 100000, 1000000, 10000000, 100000000, 1000000000, 10000000000, 100000000000, 1000000000000}

// c01RHA: n/d rounded half away from zero (d > 0), integers only.
func c01RHA(n, d int64) int64 {
	an := vrt.Abs64(n)
	q := vrt.DivFloor(vrt.DivFloor(2*an, d)+1, 2)
	return vrt.IteInt64(n < 0, -q, q)
}

func c01Max(a, b uint32) uint32 {
	if a > b {
		return a
	}
	return b
}

// H_C01_LineStep: calculateLine on one line (price, quantity, percentage discount, percentage / rate charge).
func H_C01_LineStep() {
	rule := skRule("rule")
	cur := skCurrency()
	ce := cur.Def().Subunits
	pexp := ce + 2*uint32(vrt.Choice("pexp", 3)) // currency, +2, +4 decimals
	qexp := uint32(vrt.Choice("qexp", 3))         // 0..2 decimals
	price := skAmt("price", pexp)
	qty := skAmt("qty", qexp)
	l := &Line{Quantity: qty, Item: &org.Item{Name: "x", Price: &price}}
	// discounts: none / 5.5 % / 5.5 % then 5 % / fixed then 5.5 % / 5.5 % of an explicit base
	discKind := vrt.Choice("disc", 5)
	var dfix, dbase num.Amount
	switch discKind {
	case 1:
		p := skP10 // 5.5 %
		l.Discounts = []*LineDiscount{{Percent: &p}}
	case 2:
		p, q := skP10, skP5
		l.Discounts = []*LineDiscount{{Percent: &p}, {Percent: &q}}
	case 3:
		p := skP10
		dfix = skAmt("dfix", ce)
		l.Discounts = []*LineDiscount{{Amount: dfix}, {Percent: &p}}
	case 4:
		p := skP10
		dbase = skAmt("dbase", ce)
		b := dbase
		l.Discounts = []*LineDiscount{{Percent: &p, Base: &b}}
	}
	chargeKind := vrt.Choice("charge", 3)
	var rate num.Amount
	switch chargeKind {
	case 1:
		p := skP5
		l.Charges = []*LineCharge{{Percent: &p}}
	case 2:
		rate = skAmt("rate", ce)
		l.Charges = []*LineCharge{{Rate: &rate}}
	}
	err := calculateLine(l, cur, nil, rule)
	vrt.Assert(err == nil && l.Sum != nil && l.Total != nil, "line-calculates")
	if err != nil || l.Sum == nil || l.Total == nil {
		return
	}
	// working precision
	w := pexp
	if rule == tax.RoundingRulePrecise {
		w = c01Max(pexp, ce+2)
		vrt.Assert(l.Sum.Exp() >= ce+2, "precise-working-precision-at-least-currency-plus-two")
	} else {
		w = ce
	}
	vrt.Assert(vrt.And(l.Sum.Exp() == w, l.Total.Exp() == w), "line-figures-at-working-precision")
	// sum = price x quantity, one rounding at the working precision
	exactNum := price.Value() * qty.Value() // units of 10^-(pexp+qexp)
	var wantSum int64
	if pexp+qexp >= w {
		wantSum = c01RHA(exactNum, c01Pow10[pexp+qexp-w])
	} else {
		wantSum = exactNum * c01Pow10[w-pexp-qexp]
	}
	vrt.Known("C01-currency-rule-double-rounding", rule == tax.RoundingRuleCurrency && pexp > ce && qexp > 0)
	vrt.Assert(l.Sum.Value() == wantSum, "line-sum-is-rounded-exact-product")
	total := l.Sum.Value()
	pctOfSum := func(d *LineDiscount, mil int64, what string) {
		vrt.Assert(d.Amount.Exp() == w, "discount-at-working-precision")
		vrt.Assert(d.Amount.Value() == c01RHA(l.Sum.Value()*mil, 1000), what)
		total -= d.Amount.Value()
	}
	switch discKind {
	case 1:
		pctOfSum(l.Discounts[0], 55, "discount-is-percentage-of-line-sum")
	case 2:
		pctOfSum(l.Discounts[0], 55, "discount-is-percentage-of-line-sum")
		pctOfSum(l.Discounts[1], 50, "second-discount-is-percentage-of-line-sum-not-of-the-running-total")
	case 3:
		vrt.Assert(vrt.And(l.Discounts[0].Amount.Value() == dfix.Value(), l.Discounts[0].Amount.Exp() == ce), "fixed-line-discount-kept")
		total -= dfix.Value() * c01Pow10[w-ce]
		pctOfSum(l.Discounts[1], 55, "discount-after-fixed-is-percentage-of-line-sum")
	case 4:
		// an explicit base is raised to currency+2 decimals (precise) or kept at the currency's (currency rule)
		d := l.Discounts[0]
		be := ce
		if rule == tax.RoundingRulePrecise {
			be = ce + 2
		}
		vrt.Assert(d.Amount.Exp() == be, "base-discount-at-base-precision")
		vrt.Assert(d.Amount.Value() == c01RHA(dbase.Value()*c01Pow10[be-ce]*55, 1000), "discount-is-percentage-of-explicit-base")
		total -= d.Amount.Value() * c01Pow10[w-be]
	}
	switch chargeKind {
	case 1:
		c := l.Charges[0]
		vrt.Assert(c.Amount.Value() == c01RHA(l.Sum.Value()*50, 1000), "charge-is-percentage-of-line-sum")
		total += c.Amount.Value()
	case 2:
		c := l.Charges[0]
		// rate x quantity at the rate's precision, raised (never rounded) to the currency's
		vrt.Assert(c.Amount.Exp() == ce, "rate-charge-precision")
		vrt.Assert(c.Amount.Value() == c01RHA(rate.Value()*qty.Value(), c01Pow10[qexp]), "charge-is-rate-times-quantity")
		total += c.Amount.Value() * c01Pow10[w-ce]
	}
	vrt.Assert(l.Total.Value() == total, "line-total-is-sum-minus-discounts-plus-charges")
}

// H_C01_SubLineStep: calculateSubLine on one breakdown row (price, quantity, optional percentage discount and
// percentage charge): discount and charge are each the rounded percentage of the row's sum - never of the running
// total - and the row's total is sum - discount + charge, all at the row's working precision.
func H_C01_SubLineStep() {
	rule := skRule("rule")
	cur := skCurrency()
	ce := cur.Def().Subunits
	pexp := ce + 2*uint32(vrt.Choice("pexp", 2)) // currency, +2 decimals
	qexp := uint32(vrt.Choice("qexp", 2))         // 0..1 decimals
	price := skAmt("price", pexp)
	qty := skAmt("qty", qexp)
	sl := &SubLine{Quantity: qty, Item: &org.Item{Name: "x", Price: &price}}
	hasDisc := vrt.Choice("disc", 2) == 1
	hasCharge := vrt.Choice("charge", 2) == 1
	if hasDisc {
		p := skP10 // 5.5 %
		sl.Discounts = []*LineDiscount{{Percent: &p}}
	}
	if hasCharge {
		p := skP5
		sl.Charges = []*LineCharge{{Percent: &p}}
	}
	err := calculateSubLine(sl, cur, nil, rule)
	vrt.Assert(err == nil && sl.Sum != nil && sl.Total != nil, "sub-line-calculates")
	if err != nil || sl.Sum == nil || sl.Total == nil {
		return
	}
	w := ce
	if rule == tax.RoundingRulePrecise {
		w = c01Max(pexp, ce+2)
	}
	vrt.Assert(vrt.And(sl.Sum.Exp() == w, sl.Total.Exp() == w), "sub-line-figures-at-working-precision")
	total := sl.Sum.Value()
	if hasDisc {
		d := sl.Discounts[0]
		vrt.Assert(d.Amount.Exp() == w, "sub-line-discount-at-working-precision")
		vrt.Assert(d.Amount.Value() == c01RHA(sl.Sum.Value()*55, 1000), "sub-line-discount-is-percentage-of-sum")
		total -= d.Amount.Value()
	}
	if hasCharge {
		c := sl.Charges[0]
		vrt.Assert(c.Amount.Exp() == w, "sub-line-charge-at-working-precision")
		vrt.Assert(c.Amount.Value() == c01RHA(sl.Sum.Value()*50, 1000), "sub-line-charge-is-percentage-of-sum-not-of-the-running-total")
		total += c.Amount.Value()
	}
	vrt.Assert(sl.Total.Value() == total, "sub-line-total-is-sum-minus-discount-plus-charge")
}

// H_C01_DocumentStep: document discounts / charges on the line sum, advances and due dates on the totals.
func H_C01_DocumentStep() {
	rule := skRule("rule")
	cur := skCurrency()
	ce := cur.Def().Subunits
	w := ce
	if rule == tax.RoundingRulePrecise {
		w = ce + 2
	}
	sum := skAmt("sum", w)
	p5 := skP10 // 5.5 %
	var base *num.Amount
	if vrt.Choice("base", 2) == 1 {
		b := skAmt("base", ce)
		base = &b
	}
	fixed := skAmt("fixed", ce)
	ds := []*Discount{{Percent: &p5, Base: base}, {Amount: fixed}}
	calculateDiscounts(ds, cur, sum, rule)
	of := sum.Value()
	if base != nil {
		of = base.Value() * c01Pow10[w-ce]
	}
	vrt.Assert(vrt.And(ds[0].Amount.Exp() == w, ds[0].Amount.Value() == c01RHA(of*55, 1000)), "document-discount-is-percentage-of-sum-or-base")
	vrt.Assert(vrt.And(ds[1].Amount.Value() == fixed.Value(), ds[1].Amount.Exp() == ce), "fixed-discount-kept")
	tot := calculateDiscountSum(ds, cur)
	vrt.Assert(tot != nil && tot.Exp() == w && tot.Value() == ds[0].Amount.Value()+fixed.Value()*c01Pow10[w-ce], "discount-total-is-sum")
	vrt.Assert(ds[0].Index == 1 && ds[1].Index == 2, "discount-indexes")
	cs := []*Charge{{Percent: &p5, Base: base}, {Amount: fixed}}
	calculateCharges(cs, cur, sum, rule)
	vrt.Assert(vrt.And(cs[0].Amount.Exp() == w, cs[0].Amount.Value() == c01RHA(of*55, 1000)), "document-charge-is-percentage-of-sum-or-base")
	ctot := calculateChargeSum(cs, cur)
	vrt.Assert(ctot != nil && ctot.Value() == cs[0].Amount.Value()+fixed.Value()*c01Pow10[w-ce], "charge-total-is-sum")
	// advances and due dates
	zero := cur.Def().Zero()
	twt := skAmt("twt", w)
	p50 := skP50
	adv := skAmt("adv", ce)
	pd := &PaymentDetails{Advances: []*pay.Advance{{Percent: &p50}, {Amount: adv}},
		Terms: &pay.Terms{DueDates: []*pay.DueDate{{Percent: &p50}}}}
	pd.calculateAdvances(zero, twt)
	ta := pd.totalAdvance(zero)
	half := c01RHA(twt.Value()*500, 1000)
	vrt.Assert(ta != nil && ta.Exp() == w && ta.Value() == half+adv.Value()*c01Pow10[w-ce], "advance-total-is-percentage-plus-fixed")
	vrt.Assert(pd.Advances[0].Amount.Exp() == ce && pd.Advances[0].Amount.Value() == c01RHA(half, c01Pow10[w-ce]), "presented-advance-is-rounded-to-currency")
	pd.Terms.CalculateDues(zero, twt)
	vrt.Assert(pd.Terms.DueDates[0].Amount.Exp() == ce && pd.Terms.DueDates[0].Amount.Value() == c01RHA(half, c01Pow10[w-ce]), "due-amount-is-percentage-rounded-to-currency")
}

// H_C01_ItemPrice: foreign-currency items: alternative price adopted as is, otherwise price x rate rounded to the currency.
func H_C01_ItemPrice() {
	cur := currency.Code("EUR")
	icur := currency.Code("USD")
	if vrt.Choice("icur", 2) == 1 {
		icur = "JPY"
	}
	ie := icur.Def().Subunits
	pexp := ie + 2*uint32(vrt.Choice("pexp", 2))
	price := skAmt("price", pexp)
	rate := num.MakeAmount(vrt.Int64In("rate", 1, 999999), 4)
	item := &org.Item{Name: "x", Currency: icur, Price: &price}
	rates := []*currency.ExchangeRate{{From: icur, To: cur, Amount: rate}}
	var alt num.Amount
	hasAlt := vrt.Choice("alt", 2) == 1
	if hasAlt {
		alt = skAmt("alt", 2+2*uint32(vrt.Choice("altexp", 2)))
		item.AltPrices = []*currency.Amount{{Currency: cur, Value: alt}}
	}
	err := calculateLineItemPrice(item, cur, rates)
	vrt.Assert(err == nil, "item-price-converts")
	if err != nil {
		return
	}
	vrt.Assert(item.Currency == cur, "item-now-in-document-currency")
	if hasAlt {
		vrt.Assert(item.Price.Value() == alt.Value() && item.Price.Exp() == alt.Exp(), "alternative-price-adopted-unchanged")
	} else {
		// price (matched to at least the item currency's precision) x rate, at the price's precision, then rounded to EUR's
		pe := c01Max(pexp, ie)
		conv := c01RHA(price.Value()*c01Pow10[pe-pexp]*rate.Value(), 10000)
		want := conv
		if pe > 2 {
			want = c01RHA(conv, c01Pow10[pe-2])
		} else {
			want = conv * c01Pow10[2-pe]
		}
		vrt.Assert(item.Price.Exp() == 2 && item.Price.Value() == want, "converted-price-is-price-times-rate-rounded")
	}
	vrt.Assert(len(item.AltPrices) == 1 && item.AltPrices[0].Currency == icur && item.AltPrices[0].Value.Value() == price.Value(), "original-price-kept-as-alternative")
}

var _ = cbc.Code("")

// H_C01_Pipeline: the whole calculation under the 'precise' rule against exact rational arithmetic: every presented
// document total (sum, total, tax, total with tax, payable) is less than one minor unit away from the exact value
// computed over the inputs with no intermediate rounding. Skeleton: 1-2 lines, price symbolic with 2 or 4
// decimals, quantity from a covering set, optional 10 % line discount, optional 5 % document discount, VAT 21 %.
// Exact values are kept as integers over the common denominator D = 10^6 * 10 * 20 * 100.
func H_C01_Pipeline() {
	cur := currency.Code("EUR")
	nl := 1 + vrt.Choice("nlines", 2)
	inv := &Invoice{Currency: cur, IssueDate: cal.MakeDate(2024, 3, 1), Tax: &Tax{Rounding: tax.RoundingRulePrecise}}
	var exactSum int64 // line totals, denominator 10^6 * 10
	for k := 0; k < nl; k++ {
		name := "l" + string(rune('0'+k))
		pexp, qexp := uint32(2), uint32(0)
		qvals := []int64{3, -2}
		if k == 0 || vrt.Thorough() { // quick: the second line has a plain price and a whole quantity
			pexp = uint32(2 + 2*vrt.Choice(name+".pexp", 2))
			qexp = uint32(2 * vrt.Choice(name+".qexp", 2))
			qvals = []int64{3, -2, 7}
		}
		p := vrt.Int64In(name+".price", -1000000, 1000000)
		q := qvals[vrt.Choice(name+".qty", len(qvals))]
		if qexp == 2 {
			q = q*100 + 50
		}
		price := num.MakeAmount(p, pexp)
		p21 := skP21
		l := &Line{Quantity: num.MakeAmount(q, qexp), Item: &org.Item{Name: "x", Price: &price}, Taxes: tax.Set{{Category: "VAT", Percent: &p21}}}
		keep := int64(10)
		if vrt.Choice(name+".disc", 2) == 1 {
			d := num.MakePercentage(100, 3) // 10 %
			l.Discounts = []*LineDiscount{{Percent: &d}}
			keep = 9
		}
		inv.Lines = append(inv.Lines, l)
		exactSum += p * q * c01Pow10[6-pexp-qexp] * keep
	}
	docKeep := int64(20)
	if vrt.Choice("doc.disc", 2) == 1 {
		d := skP5
		p21 := skP21
		inv.Discounts = []*Discount{{Percent: &d, Taxes: tax.Set{{Category: "VAT", Percent: &p21}}}}
		docKeep = 19
	}
	// optionally a supplied rounding adjustment and a fixed advance (both symbolic, at currency precision)
	var rounding, advance int64
	hasExtras := (nl == 1 || vrt.Thorough()) && vrt.Choice("extras", 2) == 1
	if hasExtras {
		rounding = vrt.Int64In("rounding", -500, 500)
		advance = vrt.Int64In("advance", 1, 100000)
		r := num.MakeAmount(rounding, 2)
		inv.Totals = &Totals{Rounding: &r}
		inv.Payment = &PaymentDetails{Advances: []*pay.Advance{{Description: "adv", Amount: num.MakeAmount(advance, 2)}}}
	}
	if err := calculate(inv); err != nil {
		vrt.Assert(false, "calculates")
		return
	}
	t := inv.Totals
	vrt.Assert(t != nil, "totals-present")
	if t == nil {
		return
	}
	const unit = int64(200000000) // one minor unit (1/100) over the denominator 10^6 * 10 * 20 * 100
	exactTotal := exactSum * docKeep // denominator 10^6 * 10 * 20
	near := func(presented num.Amount, exact int64, what string) {
		vrt.Assert(presented.Exp() == 2, what+"-at-currency-precision")
		diff := presented.Value()*unit - exact
		vrt.Assert(vrt.And(diff < unit, diff > -unit), what+"-within-one-minor-unit-of-the-exact-value")
	}
	near(t.Sum, exactSum*20*100, "sum")
	near(t.Total, exactTotal*100, "total")
	near(t.Tax, exactTotal*21, "tax")
	near(t.TotalWithTax, exactTotal*121, "total-with-tax")
	near(t.Payable, exactTotal*121+rounding*unit, "payable")
	if hasExtras {
		vrt.Assert(t.Due != nil, "due-present")
		if t.Due != nil {
			near(*t.Due, exactTotal*121+(rounding-advance)*unit, "due")
		}
	}
}
