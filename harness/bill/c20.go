//go:build verif

package bill

import (
	"github.com/invopop/gobl/currency"
	"github.com/invopop/gobl/internal/vrt"
	"github.com/invopop/gobl/num"
	"github.com/invopop/gobl/org"
	"github.com/invopop/gobl/tax"
)

// C20 (payments): a payment's total is the sum over its lines of debit minus credit, each converted with the
// declared exchange rate; its tax summary is the merge of its lines' document summaries.

const c20Dom = int64(1) << 40

func c20Amt(name string, exp uint32) num.Amount {
	return num.MakeAmount(vrt.Int64In(name, -c20Dom, c20Dom), exp)
}

func c20DocTax(name string) *tax.Total {
	p := num.MakePercentage(210, 3)
	return &tax.Total{
		Categories: []*tax.CategoryTotal{{
			Code: "VAT",
			Rates: []*tax.RateTotal{{
				Base:    c20Amt(name+".base", 2),
				Percent: &p,
			}},
		}},
	}
}

// c20Line: debit/credit presence by choice; currency "" (payment currency), USD (rate declared) or GBP (no rate).
func c20Line(name string) (*PaymentLine, int) {
	pl := &PaymentLine{}
	if vrt.Choice(name+".hasdebit", 2) == 1 {
		d := c20Amt(name+".debit", 2)
		pl.Debit = &d
	}
	if vrt.Choice(name+".hascredit", 2) == 1 {
		c := c20Amt(name+".credit", 2)
		pl.Credit = &c
	}
	cur := vrt.Choice(name+".cur", 3)
	switch cur {
	case 1:
		pl.Currency = "USD"
	case 2:
		pl.Currency = "GBP"
	}
	if vrt.Choice(name+".hasdoc", 2) == 1 {
		pl.Document = &org.DocumentRef{Code: "X1", Tax: c20DocTax(name + ".doc")}
	}
	return pl, cur
}

func H_C20_Payment() {
	n := 1 + vrt.Choice("n", 2)
	rate := num.MakeAmount(vrt.Int64In("rate", 1, 99999), 4)
	pmt := &Payment{
		Currency:      "EUR",
		ExchangeRates: []*currency.ExchangeRate{{From: "USD", To: "EUR", Amount: rate}},
	}
	curs := make([]int, n)
	for k := 0; k < n; k++ {
		pl, cur := c20Line("l" + string(rune('0'+k)))
		pmt.Lines = append(pmt.Lines, pl)
		curs[k] = cur
	}
	// expected figures from the inputs, before calculation
	want := num.MakeAmount(0, 2)
	convertible := true
	for k, pl := range pmt.Lines {
		for _, side := range []struct {
			a   *num.Amount
			neg bool
		}{{pl.Debit, false}, {pl.Credit, true}} {
			if side.a == nil {
				continue
			}
			a := *side.a
			if curs[k] == 2 {
				convertible = false
				continue
			}
			if curs[k] == 1 {
				a = a.Multiply(rate).Rescale(2)
			}
			if side.neg {
				want = want.Subtract(a)
			} else {
				want = want.Add(a)
			}
		}
	}
	wantBase := int64(0)
	docs := 0
	for _, pl := range pmt.Lines {
		if pl.Document != nil {
			wantBase += pl.Document.Tax.Categories[0].Rates[0].Base.Value()
			docs++
		}
	}
	err := pmt.calculate()
	if !convertible {
		vrt.Assert(err != nil, "missing-exchange-rate-is-an-error")
		return
	}
	vrt.Assert(err == nil, "payment-calculates")
	if err != nil {
		return
	}
	vrt.Assert(vrt.And(pmt.Total.Value() == want.Value(), pmt.Total.Exp() == 2), "payment-total-is-sum-of-debit-minus-credit")
	for k, pl := range pmt.Lines {
		vrt.Assert(pl.Index == k+1, "line-index")
	}
	if docs == 0 {
		vrt.Assert(pmt.Tax == nil, "no-documents-no-tax")
		return
	}
	vrt.Assert(pmt.Tax != nil, "tax-summary-present")
	if pmt.Tax != nil {
		vrt.Assert(len(pmt.Tax.Categories) == 1 && len(pmt.Tax.Categories[0].Rates) == 1, "tax-summary-one-group")
		vrt.Assert(pmt.Tax.Categories[0].Rates[0].Base.Value() == wantBase, "tax-summary-base-is-sum-of-documents")
		sum := int64(0)
		amt := int64(0)
		for _, pl := range pmt.Lines {
			if pl.Document != nil {
				sum += pl.Document.Tax.Sum.Value()
				amt += pl.Document.Tax.Categories[0].Amount.Value()
				vrt.Assert(pl.Document.Tax != pmt.Tax && pl.Document.Tax.Categories[0] != pmt.Tax.Categories[0], "tax-summary-not-aliased-to-a-document")
			}
		}
		vrt.Assert(pmt.Tax.Sum.Value() == sum, "tax-summary-sum-is-sum-of-documents")
		vrt.Assert(pmt.Tax.Categories[0].Amount.Value() == amt, "tax-summary-category-is-sum-of-documents")
	}
}
