//go:build verif

package bill

import (
	"github.com/invopop/gobl/cal"
	"github.com/invopop/gobl/cbc"
	"github.com/invopop/gobl/head"
	"github.com/invopop/gobl/internal/vrt"
	"github.com/invopop/gobl/l10n"
	"github.com/invopop/gobl/org"
	"github.com/invopop/gobl/schema"
	"github.com/invopop/gobl/tax"
	"github.com/invopop/gobl/uuid"
)

// C16 (invoice level): a correction is refused unless the requested type is one the regime allows, the reason is
// present when required and every required stamp is supplied; when accepted, the first preceding reference
// carries the source's identifier, type, series, code and issue date plus reason, extensions and stamps, and
// the corrected document has no code and no identifier. The final recalculation is a stub (true = succeeds).

func c16Str(name string) string { return string([]byte{vrt.ByteIn(name, 'a', 'b')}) }

func H_C16_Correct() {
	regimes := []l10n.TaxCountryCode{"", "ES", "MX", "PL", "GR"}
	r := regimes[vrt.Choice("regime", len(regimes))]
	src := &Invoice{Type: InvoiceTypeStandard, IssueDate: cal.MakeDate(2024, 2, 3), Currency: "EUR"}
	if r != "" {
		src.Regime = tax.WithRegime(r)
	}
	src.UUID = uuid.UUID("0190c2a6-7c2a-7000-8000-00000000000" + c16Str("uuid"))
	if vrt.Choice("hascode", 2) == 1 {
		src.Code = cbc.Code(c16Str("code"))
	}
	src.Series = cbc.Code(c16Str("series"))
	// the source may itself be a correction and already point at an older document
	hadPreceding := vrt.Choice("source-has-preceding", 2) == 1
	if hadPreceding {
		old := cal.MakeDate(2023, 1, 2)
		src.Preceding = []*org.DocumentRef{{Code: "OLD", Series: "Z", IssueDate: &old}}
	}
	cd := src.correctionDef()
	var opts []schema.Option
	var typ cbc.Key
	switch vrt.Choice("type", 4) {
	case 1:
		opts, typ = append(opts, Credit), InvoiceTypeCreditNote
	case 2:
		opts, typ = append(opts, Debit), InvoiceTypeDebitNote
	case 3:
		opts, typ = append(opts, Corrective), InvoiceTypeCorrective
	}
	reason := ""
	if vrt.Choice("reason", 2) == 1 {
		reason = c16Str("reasontext")
		opts = append(opts, WithReason(reason))
	}
	// stamps: none, the required providers, or a stamp of another provider
	var stamps []*head.Stamp
	switch vrt.Choice("stamps", 3) {
	case 1:
		for _, k := range cd.Stamps {
			stamps = append(stamps, &head.Stamp{Provider: k, Value: c16Str("stamp." + string(k))})
		}
		stamps = append(stamps, &head.Stamp{Provider: "other-provider", Value: "x"})
	case 2:
		stamps = []*head.Stamp{{Provider: "other-provider", Value: "x"}}
	}
	if len(stamps) > 0 {
		if vrt.Choice("via-head", 2) == 1 {
			opts = append(opts, head.WithHead(&head.Header{Stamps: stamps}))
		} else {
			opts = append(opts, WithStamps(stamps))
		}
	}
	newSeries := cbc.Code("")
	if vrt.Choice("newseries", 2) == 1 {
		newSeries = "R"
		opts = append(opts, WithSeries(newSeries))
	}
	var date *cal.Date
	if vrt.Choice("date", 2) == 1 {
		d := cal.MakeDate(2024, 5, 6)
		date = &d
		opts = append(opts, WithIssueDate(d))
	}
	if vrt.Choice("ext", 2) == 1 {
		opts = append(opts, WithExtension("k-ext", "v"))
	}
	vrt.SetStub("invoice.Calculate", true)
	// the source as it was
	wantUUID, wantType, wantSeries, wantCode, wantDate := src.UUID, src.Type, src.Series, src.Code, src.IssueDate
	inv := *src // Correct works on the (cloned) document
	err := inv.Correct(opts...)
	// expected decision
	typeOK := len(cd.Types) == 0 || typ.In(cd.Types...)
	reasonOK := !cd.ReasonRequired || reason != ""
	stampsOK := true
	for _, k := range cd.Stamps {
		found := false
		for _, s := range stamps {
			if s.Provider == k {
				found = true
			}
		}
		stampsOK = stampsOK && found
	}
	accept := wantCode != "" && typ != "" && typeOK && reasonOK && stampsOK // (a correction type is always required)
	vrt.Assert((err == nil) == accept, "corrected-iff-code-type-reason-and-stamps-are-in-order")
	if err != nil {
		return
	}
	vrt.Assert(inv.Code == "" && inv.UUID == "", "correction-has-no-code-and-no-identifier")
	vrt.Assert(inv.Type == typ, "correction-has-the-requested-type")
	if newSeries != "" {
		vrt.Assert(inv.Series == newSeries, "requested-series-applied")
	} else {
		vrt.Assert(inv.Series == wantSeries, "series-kept")
	}
	if date != nil {
		vrt.Assert(inv.IssueDate == *date, "requested-issue-date-applied")
	} else {
		vrt.Assert(!inv.IssueDate.IsZero(), "issue-date-set")
	}
	vrt.Assert(len(inv.Preceding) == 1, "exactly-one-preceding-reference")
	if len(inv.Preceding) != 1 {
		return
	}
	p := inv.Preceding[0]
	vrt.Assert(p.UUID == wantUUID && p.Type == wantType && p.Series == wantSeries && p.Code == wantCode, "preceding-carries-source-identifier-type-series-code")
	vrt.Assert(p.IssueDate != nil && *p.IssueDate == wantDate, "preceding-carries-source-issue-date")
	vrt.Assert(p.Reason == reason, "preceding-carries-reason")
	for _, k := range cd.Stamps {
		found := false
		for _, s := range p.Stamps {
			if s.Provider == k {
				found = true
			}
		}
		vrt.Assert(found, "preceding-carries-required-stamps")
	}
	// the source document itself (the value Correct did not receive) is as before
	vrt.Assert(src.Code == wantCode && src.UUID == wantUUID && src.Type == wantType && len(src.Preceding) == boolInt(hadPreceding), "source-document-untouched")
	if hadPreceding {
		vrt.Assert(src.Preceding[0].Code == "OLD" && src.Preceding[0].Series == "Z", "source-preceding-reference-untouched")
	}
}

// H_C16_Replicate: a replica keeps the business content but has no identifier, no code, a new date.
func H_C16_Replicate() {
	src := &Invoice{Type: InvoiceTypeStandard, IssueDate: cal.MakeDate(2024, 2, 3), Code: cbc.Code(c16Str("code")), Series: cbc.Code(c16Str("series"))}
	src.UUID = uuid.UUID("0190c2a6-7c2a-7000-8000-00000000000" + c16Str("uuid"))
	vd := cal.MakeDate(2024, 2, 4)
	src.ValueDate = &vd
	inv := *src
	err := inv.Replicate()
	vrt.Assert(err == nil, "replicates")
	vrt.Assert(inv.UUID == "" && inv.Code == "", "replica-has-no-identifier-and-no-code")
	vrt.Assert(inv.Series == src.Series && inv.Type == src.Type, "replica-keeps-series-and-type")
	vrt.Assert(inv.ValueDate == nil && inv.OperationDate == nil, "replica-drops-value-and-operation-dates")
	vrt.Assert(!inv.IssueDate.IsZero(), "replica-has-an-issue-date")
	vrt.Assert(src.Code != "" && src.UUID != "", "replication-source-untouched")
}

// H_C16_SourceHeader: whatever options are passed, correcting never writes into the source header: the header
// (with its stamps) is frozen, options come as explicit stamps for the same or another provider and / or as a
// raw JSON options object with or without a "stamps" member (decoded with encoding/json's documented re-use of
// existing slice elements and pointed-to objects).
func H_C16_SourceHeader() {
	regimes := []l10n.TaxCountryCode{"", "ES", "MX"}
	r := regimes[vrt.Choice("regime", len(regimes))]
	src := &Invoice{Type: InvoiceTypeStandard, IssueDate: cal.MakeDate(2024, 2, 3), Currency: "EUR", Code: "1", Series: "A"}
	if r != "" {
		src.Regime = tax.WithRegime(r)
	}
	cd := src.correctionDef()
	hdr := &head.Header{UUID: "0190c2a6-7c2a-7000-8000-000000000001"}
	prov := cbc.Key("prov")
	if len(cd.Stamps) > 0 && vrt.Choice("required-provider", 2) == 1 {
		prov = cd.Stamps[0]
	}
	hdr.Stamps = append(hdr.Stamps, &head.Stamp{Provider: prov, Value: c16Str("h0")})
	if vrt.Choice("two-stamps", 2) == 1 {
		hdr.Stamps = append(hdr.Stamps, &head.Stamp{Provider: "second", Value: c16Str("h1")})
	}
	vrt.Freeze(hdr, "source envelope header")
	opts := []schema.Option{Credit, WithReason("r"), head.WithHead(hdr)}
	switch vrt.Choice("explicit", 3) {
	case 1: // same provider, another value
		opts = append(opts, WithStamps([]*head.Stamp{{Provider: prov, Value: "x" + c16Str("e0")}}))
	case 2:
		opts = append(opts, WithStamps([]*head.Stamp{{Provider: "third", Value: "y"}}))
	}
	switch vrt.Choice("data", 4) {
	case 1:
		opts = append(opts, WithData([]byte(`{"type":"credit-note","reason":"from data"}`)))
	case 2:
		opts = append(opts, WithData([]byte(`{"type":"credit-note","stamps":[{"prv":"prov","val":"changed"}]}`)))
	case 3:
		opts = append(opts, WithData([]byte(`{"type":"debit-note","stamps":[{"prv":"a","val":"1"},{"prv":"b","val":"2"},{"prv":"c","val":"3"}]}`)))
	}
	vrt.SetStub("invoice.Calculate", true)
	inv := *src
	err := inv.Correct(opts...)
	vrt.Reach("correct-returned")
	if err == nil {
		vrt.Assert(len(inv.Preceding) == 1 && inv.Code == "", "corrected")
	}
	vrt.Assert(len(hdr.Stamps) >= 1 && hdr.Stamps[0].Provider == prov, "header-stamps-as-before")
}
