//go:build verif

package bill

import (
	"github.com/invopop/gobl/cal"
	"github.com/invopop/gobl/internal/vrt"
	"github.com/invopop/gobl/num"
	"github.com/invopop/gobl/org"
	"github.com/invopop/gobl/tax"
)

// C03 — under the 'currency' rounding rule every presented amount re-adds exactly.
// Laws on the calculated document alone (no reference implementation).

func H_C03_Readd() {
	o := skOpts{rule: tax.RoundingRuleCurrency, cur: "EUR", lines: skLines(), fixedAtCur: true, rich: true, include: true}
	inv := skInvoice(o)
	c03Check(inv, o.cur.Def().Subunits)
}

// H_C03_LineVariants: one line with every line-level construction (two discounts, fixed rows, explicit bases on
// percentage discounts and charges, rate charges), prices with the currency's or more decimals, quantities with or
// without decimals, and no document-level rows: the same laws.
func H_C03_LineVariants() {
	cur := skCurrency()
	ce := cur.Def().Subunits
	pexp := ce + 2*uint32(vrt.Choice("pexp", 2))
	qexp := uint32(2 * vrt.Choice("qexp", 2))
	pr := skAmt("price", pexp)
	p21 := skP21
	l := &Line{Quantity: skQty("qty", qexp), Item: &org.Item{Name: "item", Price: &pr}, Taxes: tax.Set{{Category: "VAT", Percent: &p21}}}
	pct := func() *num.Percentage { p := skP10; return &p }
	base := func(name string) *num.Amount { b := skAmt(name, ce); return &b }
	switch vrt.Choice("disc", 5) {
	case 1:
		l.Discounts = []*LineDiscount{{Percent: pct()}, {Amount: skAmt("disc.fixed", ce)}}
	case 2:
		l.Discounts = []*LineDiscount{{Percent: pct(), Base: base("disc.base")}}
	case 3:
		p5 := skP5
		l.Discounts = []*LineDiscount{{Percent: pct()}, {Percent: &p5}}
	case 4:
		l.Discounts = []*LineDiscount{{Amount: skAmt("disc.fixed", ce)}}
	}
	switch vrt.Choice("charge", 5) {
	case 1:
		l.Charges = []*LineCharge{{Percent: pct()}}
	case 2:
		l.Charges = []*LineCharge{{Percent: pct(), Base: base("charge.base")}}
	case 3:
		r := skAmt("charge.rate", ce)
		l.Charges = []*LineCharge{{Rate: &r}}
	case 4:
		l.Charges = []*LineCharge{{Amount: skAmt("charge.fixed", ce)}, {Percent: pct()}}
	}
	inv := &Invoice{Currency: cur, IssueDate: cal.MakeDate(2024, 3, 1), Tax: &Tax{Rounding: tax.RoundingRuleCurrency}, Lines: []*Line{l}}
	c03Check(inv, ce)
}

func c03Check(inv *Invoice, cur uint32) {
	err := calculate(inv)
	vrt.Assert(err == nil, "calculates")
	if err != nil {
		return
	}
	t := inv.Totals
	vrt.Assert(t != nil, "totals-present")
	if t == nil {
		return
	}
	sum := int64(0)
	for _, l := range inv.Lines {
		vrt.Assert(l.Sum != nil && l.Total != nil, "line-figures-present")
		lt := l.Sum.Value()
		for _, d := range l.Discounts {
			vrt.Assert(d.Amount.Exp() == l.Sum.Exp(), "line-discount-same-precision-as-line")
			lt -= d.Amount.Value()
		}
		for _, c := range l.Charges {
			vrt.Assert(c.Amount.Exp() == l.Sum.Exp(), "line-charge-same-precision-as-line")
			lt += c.Amount.Value()
		}
		vrt.Assert(l.Total.Value() == lt, "line-total-is-sum-minus-discounts-plus-charges")
		vrt.Assert(vrt.And(l.Sum.Exp() == l.Total.Exp(), l.Total.Exp() <= maxU32(cur, l.Item.Price.Exp())), "line-precision-at-most-currency-or-price")
		vrt.Assert(l.Total.Exp() == cur, "line-total-at-currency-precision")
		sum += l.Total.Value()
	}
	vrt.Assert(vrt.And(t.Sum.Value() == sum, t.Sum.Exp() == cur), "sum-is-sum-of-line-totals")
	disc, chg := int64(0), int64(0)
	for _, d := range inv.Discounts {
		vrt.Assert(d.Amount.Exp() == cur, "discount-at-currency-precision")
		disc += d.Amount.Value()
	}
	for _, c := range inv.Charges {
		vrt.Assert(c.Amount.Exp() == cur, "charge-at-currency-precision")
		chg += c.Amount.Value()
	}
	vrt.Assert(amtOrZero(t.Discount) == disc, "discount-total-is-sum-of-discounts")
	vrt.Assert(amtOrZero(t.Charge) == chg, "charge-total-is-sum-of-charges")
	vrt.Assert(t.Total.Value() == t.Sum.Value()-disc+chg-amtOrZero(t.TaxIncluded), "total-is-sum-minus-discount-plus-charge-minus-included-tax")
	if t.Taxes != nil {
		tsum := int64(0)
		for _, ct := range t.Taxes.Categories {
			csum := int64(0)
			for _, rt := range ct.Rates {
				vrt.Assert(vrt.And(rt.Base.Exp() == cur, rt.Amount.Exp() == cur), "rate-row-at-currency-precision")
				if rt.Percent != nil {
					vrt.Assert(rt.Amount.Value() == rt.Percent.Of(rt.Base).Rescale(cur).Value(), "rate-amount-is-percentage-of-presented-base")
				}
				csum += rt.Amount.Value()
			}
			vrt.Assert(ct.Amount.Value() == csum, "category-amount-is-sum-of-rates")
			tsum += csum
		}
		vrt.Assert(t.Taxes.Sum.Value() == tsum, "tax-sum-is-sum-of-categories")
		vrt.Assert(t.Tax.Value() == t.Taxes.Sum.Value(), "tax-is-tax-sum")
	}
	vrt.Assert(t.TotalWithTax.Value() == t.Total.Value()+t.Tax.Value(), "total-with-tax-is-total-plus-tax")
	vrt.Assert(t.Payable.Value() == t.TotalWithTax.Value()+amtOrZero(t.Rounding), "payable-is-total-with-tax-plus-rounding")
	if t.Advances != nil {
		adv := int64(0)
		for _, a := range inv.Payment.Advances {
			vrt.Assert(a.Amount.Exp() == cur, "advance-at-currency-precision")
			adv += a.Amount.Value()
		}
		vrt.Assert(t.Advances.Value() == adv, "advances-total-is-sum-of-advances")
		vrt.Assert(t.Due != nil && t.Due.Value() == t.Payable.Value()-t.Advances.Value(), "due-is-payable-minus-advances")
	}
	for _, a := range []int64{int64(t.Sum.Exp()), int64(t.Total.Exp()), int64(t.Tax.Exp()), int64(t.TotalWithTax.Exp()), int64(t.Payable.Exp())} {
		vrt.Assert(a == int64(cur), "totals-at-currency-precision")
	}
}

func maxU32(a, b uint32) uint32 {
	if a > b {
		return a
	}
	return b
}
