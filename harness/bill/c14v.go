//go:build verif

package bill

import (
	"github.com/invopop/gobl/cbc"
	"github.com/invopop/gobl/internal/vrt"
	"github.com/invopop/gobl/l10n"
	"github.com/invopop/gobl/org"
	"github.com/invopop/gobl/tax"
)

// C14 (validators): validating a calculated invoice never panics, whichever published addon is switched on and
// whichever optional parts of the document are absent. The real regime and addon validators run (the
// validation library's reflective dispatcher is modelled, see engine/interp/validation.go).
func H_C14V_Addons() {
	vrt.Unwind(20000)
	countries := []l10n.TaxCountryCode{"ES", "FR", "IT", "GR", "DE", "MX", "PT", "PL"}
	country := countries[vrt.Choice("country", len(countries))]
	inv := c18Invoice(country)
	if country == "MX" {
		inv.Currency = "MXN"
	}
	if country == "PL" {
		inv.Currency = "PLN"
	}
	inv.Type = InvoiceTypeStandard
	if err := calculate(inv); err != nil {
		vrt.Assert(false, "base-invoice-calculates")
		return
	}
	if country != "GR" && country != "PT" {
		// (the Greek and Portuguese skeletons lack what their regimes' normalisers add, so for them only the
		// regime's own validators are reached, not the addons')
		vrt.Assert(inv.Validate() == nil, "base-invoice-validates-"+string(country))
	}
	keys := vrt.Published("addons", "")
	inv.Addons = tax.WithAddons(cbc.Key(keys[vrt.Choice("addon", len(keys))]))
	// optional parts: as calculated, or absent
	switch vrt.Choice("tax", 3) {
	case 1:
		inv.Tax = nil
	case 2:
		inv.Tax = &Tax{}
	}
	if vrt.Choice("customer", 2) == 1 {
		inv.Customer = nil
	}
	switch vrt.Choice("customer-taxid", 2) {
	case 1:
		if inv.Customer != nil {
			inv.Customer.TaxID = nil
		}
	}
	if vrt.Choice("line-taxes", 2) == 1 {
		inv.Lines[0].Taxes = nil
	}
	if vrt.Choice("payment", 2) == 1 {
		inv.Payment = &PaymentDetails{}
	}
	if vrt.Choice("preceding", 2) == 1 {
		inv.Type = InvoiceTypeCreditNote
	}
	_ = inv.Validate()
	vrt.Reach("validate-returned")
}

// H_C14V_ScenarioNotes: preparing the scenario notes of an invoice never panics, whatever notes the document already
// carries: none to three notes, each a copy of a scenario's own note (same key and source), another note, or a nil
// entry, for ES and IT invoices with a tag that selects a scenario carrying a note.
func H_C14V_ScenarioNotes() {
	vrt.Unwind(20000)
	country := []l10n.TaxCountryCode{"ES", "IT"}[vrt.Choice("country", 2)]
	inv := &Invoice{Type: InvoiceTypeStandard, Regime: tax.WithRegime(country), Tags: tax.WithTags(tax.TagReverseCharge)}
	n := vrt.Choice("notes", 4)
	for k := 0; k < n; k++ {
		switch vrt.Choice("note"+string(rune('0'+k)), 4) {
		case 0:
			inv.Notes = append(inv.Notes, &org.Note{Key: org.NoteKeyLegal, Src: tax.TagReverseCharge, Text: "copy of the scenario note"})
		case 1:
			inv.Notes = append(inv.Notes, &org.Note{Key: org.NoteKeyGeneral, Text: "something else"})
		case 2:
			inv.Notes = append(inv.Notes, &org.Note{Key: org.NoteKeyLegal, Src: "other", Text: "another source"})
		case 3:
			inv.Notes = append(inv.Notes, nil)
		}
	}
	_ = inv.prepareScenarios()
	vrt.Reach("scenarios-prepared")
}
