//go:build verif

package bill

import (
	"github.com/invopop/gobl/cbc"
	"github.com/invopop/gobl/internal/vrt"
	"github.com/invopop/gobl/l10n"
	"github.com/invopop/gobl/tax"
)

// C15 (callers): computing an invoice's supported tags, correction definition and scenario summary from the
// real regime and addon definitions (imported from the initialised registry) writes to none of them, and
// doing it twice gives the same answer.
func H_C15_InvoiceHelpers() {
	vrt.Unwind(5000) // the real tag and scenario lists have dozens of entries
	regimes := []l10n.TaxCountryCode{"ES", "IT", "MX", "PT"}
	addons := [][]cbc.Key{{"es-facturae-v3"}, {"it-sdi-v1"}, {"mx-cfdi-v4"}, {"de-xrechnung-v3"}, {"eu-en16931-v2017", "es-tbai-v1"}, {"pt-saft-v1"}}
	r := regimes[vrt.Choice("regime", len(regimes))]
	as := addons[vrt.Choice("addons", len(addons))]
	inv := &Invoice{Type: InvoiceTypeStandard}
	inv.Regime = tax.WithRegime(r)
	inv.Addons = tax.WithAddons(as...)
	// documents that make scenarios (and their notes) match: by tag, and by an extension value on a line
	switch vrt.Choice("doc", 3) {
	case 1:
		inv.Tags = tax.WithTags(tax.TagReverseCharge)
	case 2:
		inv.Tags = tax.WithTags(tax.TagSimplified)
		inv.Lines = []*Line{{Taxes: tax.Set{{Category: "VAT", Ext: tax.Extensions{"pt-saft-exemption": "M01"}}}}}
	}
	vrt.Freeze(inv.RegimeDef(), "regime definition")
	for _, a := range inv.AddonDefs() {
		vrt.Freeze(a, "addon definition")
	}
	t1 := inv.supportedTags()
	t2 := inv.supportedTags()
	same := len(t1) == len(t2)
	if same {
		for k := range t1 {
			same = same && t1[k] == t2[k]
		}
	}
	vrt.Assert(same, "supported-tags-stable")
	c1 := inv.correctionDef()
	c2 := inv.correctionDef()
	vrt.Assert(len(c1.Types) == len(c2.Types) && len(c1.Stamps) == len(c2.Stamps) && c1.CopyTax == c2.CopyTax && c1.ReasonRequired == c2.ReasonRequired, "correction-definition-stable")
	s1 := inv.scenarioSummary()
	s2 := inv.scenarioSummary()
	vrt.Assert((s1 == nil) == (s2 == nil), "scenario-summary-stable")
}
