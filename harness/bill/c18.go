//go:build verif

package bill

import (
	"github.com/invopop/gobl/cal"
	"github.com/invopop/gobl/cbc"
	"github.com/invopop/gobl/currency"
	"github.com/invopop/gobl/internal/vrt"
	"github.com/invopop/gobl/l10n"
	"github.com/invopop/gobl/num"
	"github.com/invopop/gobl/org"
	"github.com/invopop/gobl/tax"
)

// C18 (wiring): starting from a valid, calculated invoice, replacing one reference by an undefined one makes
// validation fail: the currency code, the regime country, a tag, an addon key, a combo's category or rate key, an
// extension key or value.

func c18Invoice(country l10n.TaxCountryCode) *Invoice {
	price := num.MakeAmount(1000, 2)
	supplierID := map[l10n.TaxCountryCode]cbc.Code{"ES": "B98602642", "FR": "44732829320", "IT": "12345678903", "GR": "177472438", "DE": "111111125", "MX": "EKU9003173C9", "PT": "545259045", "PL": "9876543210"}
	customerID := map[l10n.TaxCountryCode]cbc.Code{"ES": "54387763P", "FR": "44732829320", "IT": "13029381004", "GR": "841442160", "DE": "282741168", "MX": "URE180429TM6", "PT": "514329874", "PL": "1234567788"}
	if country == "JP" {
		// a country without a published regime: no regime on the document, explicit percentage
		p10 := num.MakePercentage(100, 3)
		return &Invoice{
			Series: "A", Code: "1", Currency: "EUR", IssueDate: cal.MakeDate(2024, 1, 1),
			Supplier: &org.Party{Name: "S", TaxID: &tax.Identity{Country: "JP", Code: "1234567890123"}},
			Customer: &org.Party{Name: "C"},
			Lines:    []*Line{{Quantity: num.MakeAmount(1, 0), Item: &org.Item{Name: "x", Price: &price}, Taxes: tax.Set{{Category: "VAT", Percent: &p10}}}},
		}
	}
	return &Invoice{
		Regime: tax.WithRegime(country), Series: "A", Code: "1", Currency: "EUR", IssueDate: cal.MakeDate(2024, 1, 1),
		Supplier: &org.Party{Name: "S", TaxID: &tax.Identity{Country: country, Code: supplierID[country]}},
		Customer: &org.Party{Name: "C", TaxID: &tax.Identity{Country: country, Code: customerID[country]}},
		Lines:    []*Line{{Quantity: num.MakeAmount(1, 0), Item: &org.Item{Name: "x", Price: &price}, Taxes: tax.Set{{Category: "VAT", Rate: "standard"}}}},
	}
}

func H_C18_InvoiceBase() {
	vrt.Unwind(20000)
	inv := c18Invoice("ES")
	inv.Type = InvoiceTypeStandard
	err := calculate(inv) // (normalisation is reflection-driven and not part of this claim)
	vrt.Assert(err == nil, "base-invoice-calculates")
	if err != nil {
		return
	}
	verr := inv.Validate()
	vrt.Assert(verr == nil, "base-invoice-validates")
}

func c18Upper(name string, n int) string {
	b := make([]byte, n)
	for k := range b {
		b[k] = vrt.ByteIn(name+"["+string(rune('0'+k))+"]", 'A', 'Z')
	}
	return string(b)
}

func c18OneOf(s string, list []string) bool {
	ok := false
	for _, v := range list {
		if len(v) == len(s) {
			ok = vrt.Or(ok, s == v)
		}
	}
	return ok
}

func c18Has(list []string, s string) bool {
	for _, v := range list {
		if v == s {
			return true
		}
	}
	return false
}

// H_C18_InvoiceReferences: a valid calculated invoice in which one reference is replaced.
func H_C18_InvoiceReferences() {
	vrt.Unwind(20000)
	country := []l10n.TaxCountryCode{"ES", "FR"}[vrt.Choice("country", 2)]
	inv := c18Invoice(country)
	inv.Type = InvoiceTypeStandard
	if err := calculate(inv); err != nil {
		vrt.Assert(false, "base-invoice-calculates")
		return
	}
	regime := "regimes/" + map[l10n.TaxCountryCode]string{"ES": "es", "FR": "fr"}[country]
	switch vrt.Choice("replace", 7) {
	case 0: // nothing replaced
		vrt.Assert(inv.Validate() == nil, "base-invoice-validates")
	case 1: // the currency: any three capital letters, on a document without a regime (where no conversion rule intervenes)
		jp := c18Invoice("JP")
		jp.Type = InvoiceTypeStandard
		if err := calculate(jp); err != nil {
			vrt.Assert(false, "regime-less-invoice-calculates")
			return
		}
		vrt.Assert(jp.Validate() == nil, "regime-less-invoice-validates")
		cur := c18Upper("cur", 3)
		jp.Currency = currency.Code(cur)
		err := jp.Validate()
		vrt.Assert(vrt.Iff(err == nil, c18OneOf(cur, vrt.Published("currencies", ""))), "currency-accepted-iff-published")
	case 2: // the regime's country: any two capital letters
		cc := c18Upper("cc", 2)
		inv.Regime = tax.WithRegime(l10n.TaxCountryCode(cc))
		err := inv.Validate()
		vrt.Assert(err != nil || c18OneOf(cc, vrt.Published("regimes", "")), "accepted-regime-is-published")
	case 3: // a tag: every tag any regime or addon offers, and one nobody offers
		pool := []string{"no-such-tag"}
		for _, f := range []string{"regimes/es", "regimes/pt", "regimes/it", "regimes/mx", "addons/it-sdi-v1", "addons/es-facturae-v3", "addons/pt-saft-v1", "addons/mx-cfdi-v4"} {
			for _, t := range vrt.Published("tags", f) {
				if !c18Has(pool, t) {
					pool = append(pool, t)
				}
			}
		}
		tag := pool[vrt.Choice("tag", len(pool))]
		inv.Tags = tax.WithTags(cbc.Key(tag))
		err := inv.Validate()
		vrt.Assert(err != nil || c18Has(vrt.Published("tags", regime), tag), "accepted-tag-is-offered-by-the-regime")
	case 4: // an addon key
		pool := append(vrt.Published("addons", ""), "xx-nothing-v1", "es-facturae-v9")
		key := pool[vrt.Choice("addon", len(pool))]
		inv.Addons = tax.WithAddons(cbc.Key(key))
		err := inv.Validate()
		vrt.Assert(err != nil || c18Has(vrt.Published("addons", ""), key), "accepted-addon-is-published")
	case 5: // the category of the line's tax combo
		cat := []cbc.Code{"VAT", "IGIC", "IRPF", "XXX", "GST"}[vrt.Choice("cat", 5)]
		inv.Lines[0].Taxes[0].Category = cat
		inv.Lines[0].Taxes[0].Rate = ""
		err := inv.Validate()
		def := tax.RegimeDefFor(country.Code())
		vrt.Assert(err != nil || def.CategoryDef(cat) != nil, "accepted-category-belongs-to-the-regime")
	case 6: // the rate key
		rate := []cbc.Key{"standard", "reduced", "super-reduced", "intermediate", "bogus", "standard+bogus"}[vrt.Choice("rate", 6)]
		inv.Lines[0].Taxes[0].Rate = rate
		err := inv.Validate()
		def := tax.RegimeDefFor(country.Code())
		vrt.Assert(err != nil || def.CategoryDef("VAT").RateDef(rate) != nil, "accepted-rate-key-belongs-to-the-category")
	}
}
