//go:build verif

package bill

import (
	"github.com/invopop/gobl/cal"
	"github.com/invopop/gobl/currency"
	"github.com/invopop/gobl/internal/vrt"
	"github.com/invopop/gobl/num"
	"github.com/invopop/gobl/org"
	"github.com/invopop/gobl/tax"
)

// C04 (numeric core) — calculation is a fixpoint: calculating an already calculated document again changes
// no amount, percentage, precision or index. The second run starts from the first run's heap, which is
// what serialise / parse / recalculate feeds back; the unexported carry-over fields that a parse drops are
// either kept or cleared (choice).

type c04Snap struct {
	vals []int64
	exps []uint32
}

func (s *c04Snap) amt(a num.Amount)   { s.vals = append(s.vals, a.Value()); s.exps = append(s.exps, a.Exp()) }
func (s *c04Snap) pamt(a *num.Amount) {
	if a == nil {
		s.vals = append(s.vals, -7)
		s.exps = append(s.exps, 99)
		return
	}
	s.amt(*a)
}

func c04Snapshot(inv *Invoice) *c04Snap {
	s := &c04Snap{}
	for _, l := range inv.Lines {
		s.vals = append(s.vals, int64(l.Index))
		s.exps = append(s.exps, 0)
		s.pamt(l.Item.Price)
		s.pamt(l.Sum)
		s.pamt(l.Total)
		for _, d := range l.Discounts {
			s.amt(d.Amount)
		}
		for _, c := range l.Charges {
			s.amt(c.Amount)
		}
	}
	for _, d := range inv.Discounts {
		s.amt(d.Amount)
	}
	for _, c := range inv.Charges {
		s.amt(c.Amount)
	}
	if inv.Payment != nil {
		for _, a := range inv.Payment.Advances {
			s.amt(a.Amount)
		}
		if inv.Payment.Terms != nil {
			for _, dd := range inv.Payment.Terms.DueDates {
				s.amt(dd.Amount)
			}
		}
	}
	t := inv.Totals
	if t == nil {
		return s
	}
	s.amt(t.Sum)
	s.pamt(t.Discount)
	s.pamt(t.Charge)
	s.pamt(t.TaxIncluded)
	s.amt(t.Total)
	s.amt(t.Tax)
	s.amt(t.TotalWithTax)
	s.amt(t.Payable)
	s.pamt(t.Advances)
	s.pamt(t.Due)
	if t.Taxes != nil {
		s.amt(t.Taxes.Sum)
		for _, ct := range t.Taxes.Categories {
			s.amt(ct.Amount)
			for _, rt := range ct.Rates {
				s.amt(rt.Base)
				s.amt(rt.Amount)
			}
		}
	}
	return s
}

func H_C04_Fixpoint() {
	// one line, tax-exclusive prices, EUR; thorough: quantities from {3, -2, 7}. (With tax-included prices by choice as well
	// the thorough tier needs 24 minutes, the whole budget of the harness.)
	// (With the larger alternatives of the skeleton - fixed charges, percentage advance alone, finer fixed amounts - the
	// thorough tier explored 56165 paths clean in 25 minutes without finishing; with JPY as well 58857: not claimed.)
	o := skOpts{noExtras: true, rule: skRule("rule"), cur: "EUR", lines: 1, fixedAtCur: false, rich: true, include: false, qexp: true}
	inv := skInvoice(o)
	finer := c04FixedFiner(inv, o.cur.Def().Subunits)
	if calculate(inv) != nil {
		return
	}
	first := c04Snapshot(inv)
	// (calculate resets every total and rebuilds the tax summary, so the carry-over fields a parse would
	// drop - Total.sum, CategoryTotal.amount, Combo.retained - are never read by the second run)
	err := calculate(inv)
	vrt.Assert(err == nil, "recalculates")
	if err != nil {
		return
	}
	second := c04Snapshot(inv)
	vrt.Assert(len(first.vals) == len(second.vals), "same-shape")
	if len(first.vals) != len(second.vals) {
		return
	}
	same := true
	for k := range first.vals {
		same = vrt.And(same, vrt.And(first.vals[k] == second.vals[k], first.exps[k] == second.exps[k]))
	}
	vrt.Known("C04-fixed-amount-rounded-in-place", finer)
	vrt.Assert(same, "recalculation-changes-nothing")
}

// c04FixedFiner (evaluated on the inputs): some fixed amount was supplied with more decimals than the
// precision it is presented at (line discount / charge: the item price's; document discount / charge and
// advance: the currency's). Presentation rounding then rewrites the supplied amount in place, and the
// next calculation starts from the rounded value.
func c04FixedFiner(inv *Invoice, cur uint32) bool {
	for _, l := range inv.Lines {
		pe := l.Item.Price.Exp()
		if pe < cur {
			pe = cur
		}
		for _, d := range l.Discounts {
			if d.Percent == nil && d.Amount.Exp() > pe {
				return true
			}
		}
		for _, c := range l.Charges {
			if c.Percent == nil && c.Rate == nil && c.Amount.Exp() > pe {
				return true
			}
		}
	}
	for _, d := range inv.Discounts {
		if d.Percent == nil && d.Amount.Exp() > cur {
			return true
		}
	}
	for _, c := range inv.Charges {
		if c.Percent == nil && c.Amount.Exp() > cur {
			return true
		}
	}
	if inv.Payment != nil {
		for _, a := range inv.Payment.Advances {
			if a.Percent == nil && a.Amount.Exp() > cur {
				return true
			}
		}
	}
	return false
}

// H_C04_AltPrice: items priced in a foreign currency with an alternative price in the document currency
// (written with 0, 1 or 2 decimals) or converted with an exchange rate: recalculation is a fixpoint.
func H_C04_AltPrice() {
	rule := skRule("rule")
	icur := currency.Code("JPY")
	if vrt.Choice("icur", 2) == 1 {
		icur = "USD"
	}
	pr := num.MakeAmount(vrt.Int64In("price", -1000000, 1000000), icur.Def().Subunits)
	p21 := skP21
	l := &Line{Quantity: num.MakeAmount(5, 1), Item: &org.Item{Name: "x", Currency: icur, Price: &pr}, Taxes: tax.Set{{Category: "VAT", Percent: &p21}}}
	inv := &Invoice{Currency: "EUR", IssueDate: cal.MakeDate(2024, 3, 1), Tax: &Tax{Rounding: rule}, Lines: []*Line{l}}
	if vrt.Choice("alt", 2) == 1 {
		aexp := uint32(vrt.Choice("altexp", 3))
		l.Item.AltPrices = []*currency.Amount{{Currency: "EUR", Value: num.MakeAmount(vrt.Int64In("alt.value", -100000, 100000), aexp)}}
	} else {
		inv.ExchangeRates = []*currency.ExchangeRate{{From: icur, To: "EUR", Amount: num.MakeAmount(vrt.Int64In("rate", 1, 99999), 4)}}
	}
	if calculate(inv) != nil {
		return
	}
	first := c04Snapshot(inv)
	if calculate(inv) != nil {
		vrt.Assert(false, "alt-recalculates")
		return
	}
	second := c04Snapshot(inv)
	same := len(first.vals) == len(second.vals)
	if same {
		for k := range first.vals {
			same = vrt.And(same, vrt.And(first.vals[k] == second.vals[k], first.exps[k] == second.exps[k]))
		}
	}
	vrt.Assert(same, "alt-price-recalculation-changes-nothing")
}

// H_C04_Breakdown: a line whose price is built from a breakdown of one or two sub-lines (symbolic sub-line prices,
// optional percentage discount on a sub-line), the group item declaring no currency, the document's or a foreign one
// (with an exchange rate), a sub-line item optionally in the foreign currency too: calculating twice changes nothing.
func H_C04_Breakdown() {
	rule := skRule("rule")
	p21 := skP21
	curOf := func(name string) currency.Code {
		switch vrt.Choice(name, 3) {
		case 1:
			return "EUR"
		case 2:
			return "USD"
		}
		return ""
	}
	group := &org.Item{Name: "group", Currency: curOf("group.cur")}
	l := &Line{Quantity: num.MakeAmount(2, 0), Item: group, Taxes: tax.Set{{Category: "VAT", Percent: &p21}}}
	n := 1 + vrt.Choice("sublines", 2)
	coarse := vrt.Choice("coarse", 3)
	for k := 0; k < n; k++ {
		name := "s" + string(rune('0'+k))
		// prices as precise as the currency with whole quantities, or coarser prices (1 or 0 decimals) with a
		// fractional quantity on the first row, so that the row totals need more decimals than the prices carry
		pr := num.MakeAmount(vrt.Int64In(name+".price", -1000000, 1000000), uint32(2-coarse))
		qty := num.MakeAmount(int64(1+k), 0)
		if coarse > 0 && k == 0 {
			qty = num.MakeAmount(15, 1)
		}
		sl := &SubLine{Quantity: qty, Item: &org.Item{Name: "part", Price: &pr}}
		if k == 0 {
			sl.Item.Currency = curOf("s0.cur")
			if vrt.Choice("s0.disc", 2) == 1 {
				p := skP10
				sl.Discounts = []*LineDiscount{{Percent: &p}}
			}
		}
		l.Breakdown = append(l.Breakdown, sl)
	}
	inv := &Invoice{Currency: "EUR", IssueDate: cal.MakeDate(2024, 3, 1), Tax: &Tax{Rounding: rule}, Lines: []*Line{l},
		ExchangeRates: []*currency.ExchangeRate{{From: "USD", To: "EUR", Amount: num.MakeAmount(vrt.Int64In("rate", 1, 99999), 4)}}}
	if calculate(inv) != nil {
		return
	}
	vrt.Reach("breakdown-calculates")
	first := c04Snapshot(inv)
	firstCur := l.Item.Currency
	if calculate(inv) != nil {
		vrt.Assert(false, "breakdown-recalculates")
		return
	}
	second := c04Snapshot(inv)
	same := len(first.vals) == len(second.vals)
	if same {
		for k := range first.vals {
			same = vrt.And(same, vrt.And(first.vals[k] == second.vals[k], first.exps[k] == second.exps[k]))
		}
	}
	vrt.Assert(same, "breakdown-recalculation-changes-nothing")
	vrt.Assert(l.Item.Currency == firstCur && len(l.Item.AltPrices) == 0, "group-item-currency-and-alternative-prices-stable")
}
