//go:build verif

package bill

import (
	"time"

	"cloud.google.com/go/civil"

	"github.com/invopop/gobl/cal"
	"github.com/invopop/gobl/internal/vrt"
	"github.com/invopop/gobl/l10n"
	"github.com/invopop/gobl/num"
	"github.com/invopop/gobl/org"
	"github.com/invopop/gobl/tax"
)

func c12Date(name string) cal.Date {
	y := vrt.IntIn(name+".y", 1990, 2030)
	m := vrt.IntIn(name+".m", 1, 12)
	d := vrt.IntIn(name+".d", 1, 31)
	dt := cal.Date{Date: civil.Date{Year: y, Month: time.Month(m), Day: d}}
	vrt.Assume(dt.Date.IsValid())
	return dt
}

// C12 (document level): the percentage a line receives is the table value in force on the value date when the
// document has one, otherwise on the issue date - for every pair of valid dates (symbolic) and the keyed rates of
// three regimes. RateDef.Value itself is decided against its reference in the tax-package stage.
func H_C12_InvoiceDate() {
	countries := []l10n.TaxCountryCode{"ES", "PT", "FR"}
	country := countries[vrt.Choice("country", len(countries))]
	def := tax.RegimeDefFor(country.Code())
	cat := def.CategoryDef(tax.CategoryVAT)
	// keyed rates that carry dated values and are not exempt
	var keyed []*tax.RateDef
	for _, rd := range cat.Rates {
		if !rd.Exempt && len(rd.Values) > 0 {
			keyed = append(keyed, rd)
		}
	}
	rd := keyed[vrt.Choice("rate", len(keyed))]
	issue := c12Date("issue")
	price := num.MakeAmount(1000, 2)
	inv := &Invoice{Regime: tax.WithRegime(country), Currency: def.Currency, IssueDate: issue,
		Lines: []*Line{{Quantity: num.MakeAmount(1, 0), Item: &org.Item{Name: "x", Price: &price}, Taxes: tax.Set{{Category: tax.CategoryVAT, Rate: rd.Key}}}}}
	taxDate := issue
	if vrt.Choice("has-value-date", 2) == 1 {
		vd := c12Date("value")
		inv.ValueDate = &vd
		taxDate = vd
	}
	err := calculate(inv)
	want := rd.Value(taxDate, nil, nil)
	vrt.Assert((err == nil) == (want != nil), "calculates-iff-a-value-is-in-force-on-the-tax-date")
	if err != nil || want == nil {
		return
	}
	got := inv.Lines[0].Taxes[0].Percent
	vrt.Assert(got != nil && *got == want.Percent, "line-percentage-is-the-value-in-force-on-the-value-date-else-issue-date")
}
