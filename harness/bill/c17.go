//go:build verif

package bill

import (
	"github.com/invopop/gobl/internal/vrt"
	"github.com/invopop/gobl/num"
)

// C17 — totals are symmetric under negation and independent of row order; removing included taxes keeps the payable amount.

// H_C17_Invert: Invert succeeds and negates every line total, tax amount and document total; twice restores them.
func H_C17_Invert() {
	// 1..2 lines with discounts, charges and advances (fixed amounts non-zero: a zero row is dropped by normalisation)
	o := skOpts{rule: skRule("rule"), cur: skCurrency(), lines: skLines(), fixedAtCur: true, rich: true, include: false, nonzeroFixed: true}
	if !vrt.Thorough() && o.lines == 2 {
		o.rich = false // quick: one rich line, or two lines with discounts only; thorough: two rich lines as well
	}
	inv := skInvoice(o)
	if calculate(inv) != nil {
		return
	}
	before := c04Snapshot(inv)
	based := c17HasBasedOrQuantity(inv)
	err := inv.Invert()
	vrt.Known("C17-invert-based-discount-or-charge-quantity", based)
	vrt.Assert(err == nil, "invert-succeeds")
	if err != nil {
		return
	}
	after := c04Snapshot(inv)
	if len(before.vals) != len(after.vals) {
		// normalisation (part of Invoice.Calculate) drops empty discount / charge rows, e.g. a fixed
		// discount of exactly zero: the shapes are then not comparable position by position
		vrt.Reach("invert-row-dropped-by-normalisation")
		return
	}
	neg := true
	k := 0
	for _, l := range inv.Lines {
		_ = l
		k++ // index
		k++ // price (unchanged)
		// sum, total
		neg = vrt.And(neg, vrt.And(after.vals[k] == -before.vals[k], after.vals[k+1] == -before.vals[k+1]))
		k += 2
		k += len(l.Discounts) + len(l.Charges)
	}
	// everything after the per-line block is a document-level amount: all flip sign
	for ; k < len(before.vals); k++ {
		if before.exps[k] == 99 {
			continue
		}
		neg = vrt.And(neg, after.vals[k] == -before.vals[k])
	}
	vrt.Assert(neg, "invert-negates-line-totals-taxes-and-document-totals")
	if inv.Invert() != nil {
		vrt.Assert(false, "second-invert-succeeds")
		return
	}
	again := c04Snapshot(inv)
	same := len(again.vals) == len(before.vals)
	if same {
		for j := range before.vals {
			same = vrt.And(same, again.vals[j] == before.vals[j])
		}
	}
	vrt.Assert(same, "invert-twice-restores")
}

func c17HasBasedOrQuantity(inv *Invoice) bool {
	for _, d := range inv.Discounts {
		if d.Base != nil {
			return true
		}
	}
	for _, c := range inv.Charges {
		if c.Base != nil {
			return true
		}
	}
	for _, l := range inv.Lines {
		for _, c := range l.Charges {
			if c.Rate != nil && c.Quantity != nil {
				return true
			}
		}
	}
	return false
}

// H_C17_Order: swapping the two lines (and the discounts / charges) changes no line's figures and no total.
func H_C17_Order() {
	rule := skRule("rule")
	cur := skCurrency()
	o := skOpts{rule: rule, cur: cur, lines: 2, fixedAtCur: true, rich: true, include: true}
	a := skInvoice(o)
	b := skInvoice(o) // same inputs (same names), built afresh
	b.Lines[0], b.Lines[1] = b.Lines[1], b.Lines[0]
	ea, eb := calculate(a), calculate(b)
	vrt.Assert((ea == nil) == (eb == nil), "same-outcome")
	if ea != nil || eb != nil {
		return
	}
	same := true
	eqp := func(x, y *num.Amount) {
		if (x == nil) != (y == nil) {
			same = false
			return
		}
		if x != nil {
			same = vrt.And(same, vrt.And(x.Value() == y.Value(), x.Exp() == y.Exp()))
		}
	}
	for i := 0; i < 2; i++ {
		la, lb := a.Lines[i], b.Lines[1-i]
		eqp(la.Sum, lb.Sum)
		eqp(la.Total, lb.Total)
		for j := range la.Discounts {
			same = vrt.And(same, la.Discounts[j].Amount.Value() == lb.Discounts[j].Amount.Value())
		}
		for j := range la.Charges {
			same = vrt.And(same, la.Charges[j].Amount.Value() == lb.Charges[j].Amount.Value())
		}
	}
	vrt.Assert(same, "line-figures-independent-of-order")
	ta, tb := a.Totals, b.Totals
	tot := true
	eqt := func(x, y num.Amount) { tot = vrt.And(tot, vrt.And(x.Value() == y.Value(), x.Exp() == y.Exp())) }
	eqt(ta.Sum, tb.Sum)
	eqt(ta.Total, tb.Total)
	eqt(ta.Tax, tb.Tax)
	eqt(ta.TotalWithTax, tb.TotalWithTax)
	eqt(ta.Payable, tb.Payable)
	vrt.Assert(tot, "document-totals-independent-of-order")
	// tax groups: same multiset (two VAT groups at most: match by percentage)
	grp := true
	if ta.Taxes != nil && tb.Taxes != nil {
		for _, ca := range ta.Taxes.Categories {
			cb := tb.Taxes.Category(ca.Code)
			if cb == nil || len(cb.Rates) != len(ca.Rates) {
				grp = false
				continue
			}
			grp = vrt.And(grp, ca.Amount.Value() == cb.Amount.Value())
			for _, ra := range ca.Rates {
				found := false
				for _, rb := range cb.Rates {
					if ra.Percent != nil && rb.Percent != nil && ra.Percent.Value() == rb.Percent.Value() {
						found = true
						grp = vrt.And(grp, vrt.And(ra.Base.Value() == rb.Base.Value(), ra.Amount.Value() == rb.Amount.Value()))
					}
				}
				if !found {
					grp = false
				}
			}
		}
	} else if (ta.Taxes == nil) != (tb.Taxes == nil) {
		grp = false
	}
	vrt.Assert(grp, "tax-groups-independent-of-order")
}

// H_C17_RemoveIncluded: removing included taxes yields a payable equal to the original total with tax
// (any residue recorded in the rounding field).
func H_C17_RemoveIncluded() {
	o := skOpts{rule: skRule("rule"), cur: skCurrency(), lines: 1, fixedAtCur: true, rich: false, include: false}
	if vrt.Thorough() {
		o.lines = skLines()
	}
	inv := skInvoice(o)
	inv.Tax.PricesInclude = "VAT"
	if calculate(inv) != nil {
		return
	}
	twt := inv.Totals.TotalWithTax
	err := removeIncludedTaxes(inv)
	vrt.Assert(err == nil, "remove-included-succeeds")
	if err != nil {
		return
	}
	vrt.Assert(inv.Tax.PricesInclude == "", "prices-no-longer-include-tax")
	t := inv.Totals
	// a fixed document-level discount or charge gets more decimals when the tax is taken out and is then rounded in
	// place by the first recalculation (the C04 finding), so the second one starts from other inputs
	fixedDocRow := false
	for _, d := range inv.Discounts {
		fixedDocRow = fixedDocRow || d.Percent == nil
	}
	for _, c := range inv.Charges {
		fixedDocRow = fixedDocRow || c.Percent == nil
	}
	vrt.Known("C17-remove-included-fixed-document-row", fixedDocRow)
	vrt.Assert(vrt.And(t.Payable.Value() == twt.Value(), t.Payable.Exp() == twt.Exp()), "payable-equals-original-total-with-tax")
	vrt.Assert(t.Payable.Value() == t.TotalWithTax.Value()+amtOrZero(t.Rounding), "residue-is-in-rounding")
}
