//go:build verif

package bill

import (
	"github.com/invopop/gobl/cal"
	"github.com/invopop/gobl/currency"
	"github.com/invopop/gobl/internal/vrt"
	"github.com/invopop/gobl/num"
	"github.com/invopop/gobl/org"
	"github.com/invopop/gobl/tax"
)

// C17 — totals are symmetric under negation and independent of row order; removing included taxes keeps the payable amount.

// H_C17_Invert: Invert succeeds and negates every line total, tax amount and document total; twice restores them.
func H_C17_Invert() {
	// 1..2 lines with discounts, charges and advances (fixed amounts non-zero: a zero row is dropped by normalisation)
	o := skOpts{rule: skRule("rule"), cur: skCurrency2(), lines: skLines(), fixedAtCur: true, rich: true, include: false, nonzeroFixed: true}
	if o.lines == 2 {
		o.rich = false // one rich line, or two lines with discounts only (two rich lines explored 10873 paths clean in 30 minutes without finishing: not claimed)
	}
	inv := skInvoice(o)
	if calculate(inv) != nil {
		return
	}
	before := c04Snapshot(inv)
	based := c17HasBasedOrQuantity(inv)
	err := inv.Invert()
	vrt.Known("C17-invert-based-discount-or-charge-quantity", based)
	vrt.Assert(err == nil, "invert-succeeds")
	if err != nil {
		return
	}
	after := c04Snapshot(inv)
	if len(before.vals) != len(after.vals) {
		// normalisation (part of Invoice.Calculate) drops empty discount / charge rows, e.g. a fixed
		// discount of exactly zero: the shapes are then not comparable position by position
		vrt.Reach("invert-row-dropped-by-normalisation")
		return
	}
	neg := true
	k := 0
	for _, l := range inv.Lines {
		_ = l
		k++ // index
		k++ // price (unchanged)
		// sum, total
		neg = vrt.And(neg, vrt.And(after.vals[k] == -before.vals[k], after.vals[k+1] == -before.vals[k+1]))
		k += 2
		k += len(l.Discounts) + len(l.Charges)
	}
	// everything after the per-line block is a document-level amount: all flip sign
	for ; k < len(before.vals); k++ {
		if before.exps[k] == 99 {
			continue
		}
		neg = vrt.And(neg, after.vals[k] == -before.vals[k])
	}
	vrt.Assert(neg, "invert-negates-line-totals-taxes-and-document-totals")
	if inv.Invert() != nil {
		vrt.Assert(false, "second-invert-succeeds")
		return
	}
	again := c04Snapshot(inv)
	same := len(again.vals) == len(before.vals)
	if same {
		for j := range before.vals {
			same = vrt.And(same, again.vals[j] == before.vals[j])
		}
	}
	vrt.Assert(same, "invert-twice-restores")
}

func c17HasBasedOrQuantity(inv *Invoice) bool {
	for _, d := range inv.Discounts {
		if d.Base != nil {
			return true
		}
	}
	for _, c := range inv.Charges {
		if c.Base != nil {
			return true
		}
	}
	for _, l := range inv.Lines {
		for _, c := range l.Charges {
			if c.Rate != nil && c.Quantity != nil {
				return true
			}
		}
	}
	return false
}

// H_C17_Order: swapping the two lines (and the discounts / charges) changes no line's figures and no total.
func H_C17_Order() {
	rule := skRule("rule")
	cur := currency.Code("EUR")
	// (thorough: quantities from {3, -2, 7} on the first line; with the larger alternatives of the skeleton as well the
	// harness needs 22 of its 24 minutes: 25920 paths, all clean)
	o := skOpts{noExtras: true, rule: rule, cur: cur, lines: 2, fixedAtCur: true, rich: true, include: true}
	a := skInvoice(o)
	b := skInvoice(o) // same inputs (same names), built afresh
	b.Lines[0], b.Lines[1] = b.Lines[1], b.Lines[0]
	ea, eb := calculate(a), calculate(b)
	vrt.Assert((ea == nil) == (eb == nil), "same-outcome")
	if ea != nil || eb != nil {
		return
	}
	same := true
	eqp := func(x, y *num.Amount) {
		if (x == nil) != (y == nil) {
			same = false
			return
		}
		if x != nil {
			same = vrt.And(same, vrt.And(x.Value() == y.Value(), x.Exp() == y.Exp()))
		}
	}
	for i := 0; i < 2; i++ {
		la, lb := a.Lines[i], b.Lines[1-i]
		eqp(la.Sum, lb.Sum)
		eqp(la.Total, lb.Total)
		for j := range la.Discounts {
			same = vrt.And(same, la.Discounts[j].Amount.Value() == lb.Discounts[j].Amount.Value())
		}
		for j := range la.Charges {
			same = vrt.And(same, la.Charges[j].Amount.Value() == lb.Charges[j].Amount.Value())
		}
	}
	vrt.Assert(same, "line-figures-independent-of-order")
	ta, tb := a.Totals, b.Totals
	tot := true
	eqt := func(x, y num.Amount) { tot = vrt.And(tot, vrt.And(x.Value() == y.Value(), x.Exp() == y.Exp())) }
	eqt(ta.Sum, tb.Sum)
	eqt(ta.Total, tb.Total)
	eqt(ta.Tax, tb.Tax)
	eqt(ta.TotalWithTax, tb.TotalWithTax)
	eqt(ta.Payable, tb.Payable)
	vrt.Assert(tot, "document-totals-independent-of-order")
	// tax groups: same multiset (two VAT groups at most: match by percentage)
	grp := true
	if ta.Taxes != nil && tb.Taxes != nil {
		for _, ca := range ta.Taxes.Categories {
			cb := tb.Taxes.Category(ca.Code)
			if cb == nil || len(cb.Rates) != len(ca.Rates) {
				grp = false
				continue
			}
			grp = vrt.And(grp, ca.Amount.Value() == cb.Amount.Value())
			for _, ra := range ca.Rates {
				found := false
				for _, rb := range cb.Rates {
					if ra.Percent != nil && rb.Percent != nil && ra.Percent.Value() == rb.Percent.Value() {
						found = true
						grp = vrt.And(grp, vrt.And(ra.Base.Value() == rb.Base.Value(), ra.Amount.Value() == rb.Amount.Value()))
					}
				}
				if !found {
					grp = false
				}
			}
		}
	} else if (ta.Taxes == nil) != (tb.Taxes == nil) {
		grp = false
	}
	vrt.Assert(grp, "tax-groups-independent-of-order")
}

// H_C17_RemoveIncluded: removing included taxes yields a payable equal to the original total with tax
// (any residue recorded in the rounding field).
func H_C17_RemoveIncluded() {
	o := skOpts{rule: skRule("rule"), cur: "EUR", lines: 1, fixedAtCur: true, rich: false, include: false}
	inv := skInvoice(o)
	inv.Tax.PricesInclude = "VAT"
	if calculate(inv) != nil {
		return
	}
	twt := inv.Totals.TotalWithTax
	err := removeIncludedTaxes(inv)
	vrt.Assert(err == nil, "remove-included-succeeds")
	if err != nil {
		return
	}
	vrt.Assert(inv.Tax.PricesInclude == "", "prices-no-longer-include-tax")
	t := inv.Totals
	// a fixed discount or charge (document level or line level) gets more decimals when the tax is taken out and is then rounded in
	// place by the first recalculation (the C04 finding), so the second one starts from other inputs
	fixedDocRow := false
	for _, d := range inv.Discounts {
		fixedDocRow = fixedDocRow || d.Percent == nil
	}
	for _, c := range inv.Charges {
		fixedDocRow = fixedDocRow || c.Percent == nil
	}
	// ... and the same happens to a fixed discount or charge of a line
	for _, l := range inv.Lines {
		for _, d := range l.Discounts {
			fixedDocRow = fixedDocRow || d.Percent == nil
		}
		for _, c := range l.Charges {
			fixedDocRow = fixedDocRow || (c.Percent == nil && c.Rate == nil)
		}
	}
	vrt.Known("C17-remove-included-fixed-document-row", fixedDocRow)
	vrt.Assert(vrt.And(t.Payable.Value() == twt.Value(), t.Payable.Exp() == twt.Exp()), "payable-equals-original-total-with-tax")
	vrt.Assert(t.Payable.Value() == t.TotalWithTax.Value()+amtOrZero(t.Rounding), "residue-is-in-rounding")
}

// H_C17_OrderSurcharge: two lines in the same tax category whose combos differ in percentage and / or in carrying a
// surcharge (every combination): swapping the lines changes no total and no tax figure.
func H_C17_OrderSurcharge() {
	rule := skRule("rule")
	mk := func(name string) *Line {
		pr := skAmt(name+".price", 2)
		pct := skP21
		if vrt.Choice(name+".pct", 2) == 1 {
			pct = skP10
		}
		c := &tax.Combo{Category: "VAT", Percent: &pct}
		if vrt.Choice(name+".sur", 2) == 1 {
			s := num.MakePercentage(52, 3)
			c.Surcharge = &s
		}
		return &Line{Quantity: num.MakeAmount(3, 0), Item: &org.Item{Name: "item", Price: &pr}, Taxes: tax.Set{c}}
	}
	build := func(swap bool) *Invoice {
		a, b := mk("l0"), mk("l1")
		inv := &Invoice{Currency: "EUR", IssueDate: cal.MakeDate(2024, 3, 1), Tax: &Tax{Rounding: rule}}
		if swap {
			inv.Lines = []*Line{b, a}
		} else {
			inv.Lines = []*Line{a, b}
		}
		return inv
	}
	x, y := build(false), build(true)
	ex, ey := calculate(x), calculate(y)
	vrt.Assert((ex == nil) == (ey == nil), "same-outcome")
	if ex != nil || ey != nil {
		return
	}
	tx, ty := x.Totals, y.Totals
	same := vrt.And(tx.Sum.Value() == ty.Sum.Value(), vrt.And(tx.Tax.Value() == ty.Tax.Value(), vrt.And(tx.TotalWithTax.Value() == ty.TotalWithTax.Value(), tx.Payable.Value() == ty.Payable.Value())))
	vrt.Assert(same, "document-totals-independent-of-order")
	vrt.Assert(tx.Taxes != nil && ty.Taxes != nil && len(tx.Taxes.Categories) == 1 && len(ty.Taxes.Categories) == 1, "one-category")
	cx, cy := tx.Taxes.Categories[0], ty.Taxes.Categories[0]
	vrt.Assert(len(cx.Rates) == len(cy.Rates), "same-number-of-rate-groups")
	vrt.Assert(cx.Amount.Value() == cy.Amount.Value(), "category-amount-independent-of-order")
	vrt.Assert((cx.Surcharge == nil) == (cy.Surcharge == nil), "category-surcharge-present-in-both-orders")
	if cx.Surcharge != nil && cy.Surcharge != nil {
		vrt.Assert(cx.Surcharge.Value() == cy.Surcharge.Value(), "category-surcharge-independent-of-order")
	}
}

// H_C17_RemoveIncludedFixedRow: the shape of known finding C17-remove-included-fixed-document-row, kept in the quick
// tier so that the finding is exercised (and reported as known) on every run: one line with a four-decimal price, a
// fixed document discount, prices including VAT, rule 'precise'.
func H_C17_RemoveIncludedFixedRow() {
	pr := num.MakeAmount(vrt.Int64In("price", 0, 9999), 4) // small amounts: the residue of a cent shows there
	p21 := skP21
	inv := &Invoice{Currency: "EUR", IssueDate: cal.MakeDate(2024, 3, 1), Tax: &Tax{Rounding: tax.RoundingRulePrecise, PricesInclude: "VAT"}}
	inv.Lines = []*Line{{Quantity: num.MakeAmount(-2, 0), Item: &org.Item{Name: "item", Price: &pr}, Taxes: tax.Set{{Category: "VAT", Percent: &p21}}}}
	inv.Discounts = []*Discount{{Amount: num.MakeAmount(vrt.Int64In("disc", -100, -1), 2), Taxes: tax.Set{{Category: "VAT", Percent: &p21}}}}
	if calculate(inv) != nil {
		return
	}
	twt := inv.Totals.TotalWithTax
	if removeIncludedTaxes(inv) != nil {
		return
	}
	t := inv.Totals
	vrt.Known("C17-remove-included-fixed-document-row", true)
	vrt.Assert(vrt.And(t.Payable.Value() == twt.Value(), t.Payable.Exp() == twt.Exp()), "payable-equals-original-total-with-tax")
}
