//go:build verif

package bill

import (
	"github.com/invopop/gobl/cal"
	"github.com/invopop/gobl/currency"
	"github.com/invopop/gobl/internal/vrt"
	"github.com/invopop/gobl/num"
	"github.com/invopop/gobl/org"
	"github.com/invopop/gobl/pay"
	"github.com/invopop/gobl/tax"
)

// C14 — no input crashes the library: invoice / payment skeletons whose optional pointers are nil or not by
// choice and whose currency codes range over {absent, defined, other defined, undefined}; numbers symbolic.
// The obligation is implicit: no path may end in a Go run-time panic (every panic is replayed natively).

func c14Cur(name string) currency.Code {
	switch vrt.Choice(name, 4) {
	case 1:
		return "EUR"
	case 2:
		return "USD"
	case 3:
		return "ZZZ" // not a defined currency
	}
	return ""
}

func c14CurG(group int, name string) currency.Code {
	if c14Focus != group {
		return ""
	}
	return c14Cur(name)
}

func boolInt(b bool) int {
	if b {
		return 1
	}
	return 0
}

func c14Amt(name string) *num.Amount {
	if vrt.Choice(name+".nil", 2) == 1 {
		return nil
	}
	a := num.MakeAmount(vrt.Int64In(name, -1000000, 1000000), 2)
	return &a
}

// c14Vary: the optional parts are split into four groups (item and currencies / rows / payment and
// preceding / line breakdown); one group varies over all its combinations while the others stay at their first alternative.
var c14Focus int

func c14Choice(group int, name string, n int) int {
	if c14Focus != group {
		return 0
	}
	return vrt.Choice(name, n)
}

func H_C14_InvoiceCalculate() {
	c14Focus = vrt.Choice("focus", 4)
	inv := &Invoice{IssueDate: cal.MakeDate(2024, 3, 1), Currency: c14Cur("cur")}
	if vrt.Choice("tax", 2) == 1 {
		inv.Tax = &Tax{}
	}
	if c14Choice(0, "rates", 2) == 1 {
		inv.ExchangeRates = []*currency.ExchangeRate{{From: "USD", To: "EUR", Amount: num.MakeAmount(9, 1)}}
	}
	l := &Line{Quantity: num.MakeAmount(vrt.Int64In("qty", -100, 100), 0)}
	switch c14Choice(0, "item", 3) + 2*boolInt(c14Focus != 0) {
	case 1:
		l.Item = &org.Item{Name: "x"}
	case 2:
		l.Item = &org.Item{Name: "x", Currency: c14CurG(0, "item.cur")}
		l.Item.Price = c14Amt("price")
		if c14Choice(0, "alt", 2) == 1 {
			l.Item.AltPrices = []*currency.Amount{{Currency: c14CurG(0, "alt.cur"), Value: num.MakeAmount(5, 0)}}
		}
	}
	if c14Choice(1, "taxes", 2) == 1 {
		l.Taxes = tax.Set{{Category: "VAT"}}
		if c14Choice(1, "pct", 2) == 1 {
			p := num.MakePercentage(21, 2)
			l.Taxes[0].Percent = &p
		}
	}
	switch c14Choice(1, "ldisc", 3) {
	case 1:
		l.Discounts = []*LineDiscount{{}}
	case 2:
		p := num.MakePercentage(vrt.Int64In("ldisc.pct", -100, 100), 2)
		l.Discounts = []*LineDiscount{{Percent: &p, Base: c14Amt("ldisc.base")}}
	}
	if c14Choice(1, "lcharge", 2) == 1 {
		l.Charges = []*LineCharge{{Rate: c14Amt("lcharge.rate"), Quantity: c14Amt("lcharge.qty")}}
	}
	if c14Focus == 3 {
		// a breakdown of one or two sub-lines, each with or without an item, a price, supplied (stale) sum and
		// total, an empty discount row; a nil sub-line
		n := 1 + vrt.Choice("bd.n", 2)
		for i := 0; i < n; i++ {
			nm := []string{"bd0", "bd1"}[i]
			sl := &SubLine{Quantity: num.MakeAmount(vrt.Int64In(nm+".qty", -100, 100), 0)}
			switch vrt.Choice(nm+".item", 3) {
			case 1:
				sl.Item = &org.Item{Name: "y"}
			case 2:
				sl.Item = &org.Item{Name: "y", Price: c14Amt(nm + ".price")}
			}
			if vrt.Choice(nm+".supplied", 2) == 1 {
				t := num.MakeAmount(500, 2)
				u := t
				sl.Sum, sl.Total = &t, &u
			}
			if vrt.Choice(nm+".disc", 2) == 1 {
				sl.Discounts = []*LineDiscount{{}}
			}
			l.Breakdown = append(l.Breakdown, sl)
		}
		if vrt.Choice("bd.nil", 2) == 1 {
			// a null entry in the breakdown array: known finding C14-null-sub-line (open)
			l.Breakdown = append(l.Breakdown, nil)
			vrt.Known("C14-null-sub-line", true)
		}
	}
	inv.Lines = []*Line{l}
	if c14Choice(1, "nil-line", 2) == 1 {
		inv.Lines = append(inv.Lines, &Line{})
	}
	if c14Choice(1, "disc", 2) == 1 {
		p := num.MakePercentage(5, 2)
		inv.Discounts = []*Discount{{Percent: &p, Base: c14Amt("disc.base")}}
	}
	switch c14Choice(2, "pay", 4) {
	case 1:
		inv.Payment = &PaymentDetails{}
	case 2:
		inv.Payment = &PaymentDetails{Advances: []*pay.Advance{{Amount: num.MakeAmount(vrt.Int64In("adv", -100, 100), 2)}}}
	case 3:
		p := num.MakePercentage(50, 2)
		inv.Payment = &PaymentDetails{Terms: &pay.Terms{DueDates: []*pay.DueDate{{Percent: &p}}}}
	}
	if c14Choice(2, "preceding", 2) == 1 {
		inv.Preceding = []*org.DocumentRef{{Code: "1", Currency: c14CurG(2, "prec.cur"), Tax: &tax.Total{Categories: []*tax.CategoryTotal{{Code: "VAT"}}}}}
	}
	err := calculate(inv)
	vrt.Reach("calculate-returned")
	if err == nil && inv.Totals != nil {
		vrt.Assert(inv.Currency != "", "calculated-document-has-a-currency")
	}
}

func H_C14_PaymentCalculate() {
	pmt := &Payment{Currency: c14Cur("cur")}
	if vrt.Choice("rates", 2) == 1 {
		pmt.ExchangeRates = []*currency.ExchangeRate{{From: "USD", To: "EUR", Amount: num.MakeAmount(9, 1)}}
	}
	pl := &PaymentLine{Currency: c14Cur("line.cur"), Debit: c14Amt("debit"), Credit: c14Amt("credit")}
	switch vrt.Choice("doc", 3) {
	case 1:
		pl.Document = &org.DocumentRef{Code: "1"}
	case 2:
		pl.Document = &org.DocumentRef{Code: "1", Currency: c14Cur("doc.cur"), Tax: &tax.Total{Categories: []*tax.CategoryTotal{{Code: "VAT", Rates: []*tax.RateTotal{{Base: num.MakeAmount(100, 2)}}}}}}
	}
	pmt.Lines = []*PaymentLine{pl}
	// a second row whose document is absent / without tax totals / with tax totals (either order of the two kinds)
	if k := vrt.Choice("second", 4); k > 0 {
		p2 := &PaymentLine{Debit: c14Amt("debit2")}
		switch k {
		case 2:
			p2.Document = &org.DocumentRef{Code: "2"}
		case 3:
			p2.Document = &org.DocumentRef{Code: "2", Tax: &tax.Total{Categories: []*tax.CategoryTotal{{Code: "VAT", Rates: []*tax.RateTotal{{Base: num.MakeAmount(50, 2)}}}}}}
		}
		pmt.Lines = append(pmt.Lines, p2)
	}
	_ = pmt.calculate()
	vrt.Reach("payment-calculate-returned")
}
