//go:build verif

package bill

import (
	"github.com/invopop/gobl/cal"
	"github.com/invopop/gobl/cbc"
	"github.com/invopop/gobl/currency"
	"github.com/invopop/gobl/internal/vrt"
	"github.com/invopop/gobl/num"
	"github.com/invopop/gobl/org"
	"github.com/invopop/gobl/pay"
	"github.com/invopop/gobl/tax"
)

// Invoice skeletons shared by C01, C03, C04, C14 and C17: the shape (which optional
// parts are present, exponents, rule, currency) is enumerated by vrt.Choice, every
// amount, quantity and price is a symbolic value of either sign.

const skDom = int64(1) << 32

func skAmt(name string, exp uint32) num.Amount {
	return num.MakeAmount(vrt.Int64In(name, -skDom, skDom), exp)
}

func skPos(name string, exp uint32) num.Amount {
	return num.MakeAmount(vrt.Int64In(name, 0, skDom), exp)
}

// skQty: the quantity is drawn from a covering set (quick {3, -2}, thorough {3, -2, 7} on the first line; units of its precision, with
// a half unit added at two decimals), which keeps every query linear while prices and amounts stay symbolic.
// Fully symbolic quantities (price x quantity a product of two unknowns) were tried in the thorough tier and are not
// claimed: the line-swap harness explored 3221 paths clean in 25 minutes without finishing, Invert left 91 of 502
// obligations unknown.
func skQty(name string, exp uint32) num.Amount {
	vals := []int64{3, -2}
	if vrt.Thorough() && name == "l0.qty" {
		vals = []int64{3, -2, 7}
	}
	v := vals[vrt.Choice(name, len(vals))]
	if exp == 2 {
		v = v*100 + 50
	}
	return num.MakeAmount(v, exp)
}

// skFixed: a fixed (supplied) amount; with nonzeroFixed it is assumed different from zero (a zero row is dropped by
// normalisation, which makes it the document without the row - a shape that is enumerated anyway).
func skFixed(o skOpts, name string, exp uint32) num.Amount {
	a := skAmt(name, exp)
	if o.nonzeroFixed {
		vrt.Assume(a.Value() != 0)
	}
	return a
}

type skOpts struct {
	noExtras     bool // thorough tier: without the larger alternatives (fixed charges, percentage advance alone, finer fixed amounts)
	nonzeroFixed bool // fixed amounts are not zero
	rule       cbc.Key  // rounding rule
	cur        currency.Code
	lines      int
	fixedAtCur bool // fixed discount / charge / advance amounts at the currency's precision (C03 assumption)
	rich       bool // all optional parts by choice (otherwise a smaller family)
	include    bool // allow tax-included prices
	qexp       bool // quantities with 0 or 2 decimals also in the quick tier
}

var (
	skP21 = num.MakePercentage(210, 3)
	skP10 = num.MakePercentage(55, 3) // 5.5 %: a rate whose last decimal is odd, so that percentage-of lands on ties
	skP5  = num.MakePercentage(50, 3)
	skP50 = num.MakePercentage(500, 3)
)

func skLine(name string, o skOpts, curExp uint32, first bool) *Line {
	full := first // (a second line with the full variety multiplies the shape space beyond what completes: not claimed)
	if !full {
		// quick tier: every line after the first is a plain row in a second VAT group
		// (10 %, price at currency precision, quantity 3) so that row interactions stay covered
		pr := skAmt(name+".price", curExp)
		p := skP10
		return &Line{Quantity: num.MakeAmount(3, 0), Item: &org.Item{Name: "item", Price: &pr}, Taxes: tax.Set{{Category: "VAT", Percent: &p}}}
	}
	pexp := curExp
	if vrt.Choice(name+".pexp", 2) == 1 {
		pexp = curExp + 2
	}
	qexp := uint32(0)
	if o.qexp {
		qexp = uint32(vrt.Choice(name+".qexp", 2)) * 2 // 0 or 2 decimals
	}
	pr := skAmt(name+".price", pexp)
	p21 := skP21
	l := &Line{
		Quantity: skQty(name+".qty", qexp),
		Item:     &org.Item{Name: "item", Price: &pr},
		Taxes:    tax.Set{{Category: "VAT", Percent: &p21}},
	}
	fexp := func() uint32 { // precision of a supplied fixed amount (chosen only where one is present)
		if !o.fixedAtCur && vrt.Thorough() && !o.noExtras {
			return curExp + 2*uint32(vrt.Choice(name+".fexp", 2))
		}
		return curExp
	}
	switch vrt.Choice(name+".disc", 3) {
	case 1:
		p := skP10
		l.Discounts = []*LineDiscount{{Percent: &p}}
	case 2:
		l.Discounts = []*LineDiscount{{Amount: skFixed(o, name+".disc.amount", fexp())}}
	}
	if o.rich {
		nc := 3 // quick: none / percent / rate x quantity; thorough adds a fixed amount
		if vrt.Thorough() && !o.noExtras {
			nc = 4
		}
		switch vrt.Choice(name+".charge", nc) {
		case 1:
			p := skP5
			l.Charges = []*LineCharge{{Percent: &p}}
		case 2:
			r := skFixed(o, name+".charge.rate", curExp)
			l.Charges = []*LineCharge{{Rate: &r}}
		case 3:
			l.Charges = []*LineCharge{{Amount: skFixed(o, name+".charge.amount", fexp())}}
		}
	}
	return l
}

// skInvoice builds the document. Percentages are fixed (21 %, 10 %, 5 %, 50 %), all amounts symbolic.
func skInvoice(o skOpts) *Invoice {
	curExp := o.cur.Def().Subunits
	inv := &Invoice{
		Currency:  o.cur,
		IssueDate: cal.MakeDate(2024, 3, 1),
		Tax:       &Tax{Rounding: o.rule},
	}
	if o.include && vrt.Choice("include", 2) == 1 {
		inv.Tax.PricesInclude = "VAT"
	}
	for k := 0; k < o.lines; k++ {
		inv.Lines = append(inv.Lines, skLine("l"+string(rune('0'+k)), o, curExp, k == 0))
	}
	fexp := func() uint32 {
		if !o.fixedAtCur {
			return curExp + 2*uint32(vrt.Choice("doc.fexp", 2))
		}
		return curExp
	}
	vat := func() tax.Set { p := skP21; return tax.Set{{Category: "VAT", Percent: &p}} }
	switch vrt.Choice("doc.disc", 3) {
	case 1:
		p := skP5
		inv.Discounts = []*Discount{{Percent: &p, Taxes: vat()}}
	case 2:
		inv.Discounts = []*Discount{{Amount: skFixed(o, "doc.disc.amount", fexp()), Taxes: vat()}}
	}
	if o.rich {
		ndc := 2 // quick: none / percent; thorough adds a fixed amount
		if vrt.Thorough() && !o.noExtras {
			ndc = 3
		}
		switch vrt.Choice("doc.charge", ndc) {
		case 1:
			p := skP5
			inv.Charges = []*Charge{{Percent: &p, Taxes: vat()}}
		case 2:
			inv.Charges = []*Charge{{Amount: skFixed(o, "doc.charge.amount", fexp()), Taxes: vat()}}
		}
		na := 3 // quick: none / fixed / percent with a percentage due date; thorough adds percent alone
		if vrt.Thorough() && !o.noExtras {
			na = 4
		}
		switch vrt.Choice("advance", na) {
		case 3:
			p := skP50
			inv.Payment = &PaymentDetails{Advances: []*pay.Advance{{Description: "adv", Percent: &p}}}
		case 1:
			inv.Payment = &PaymentDetails{Advances: []*pay.Advance{{Description: "adv", Amount: skFixed(o, "advance.amount", fexp())}}}
		case 2:
			p, q := skP50, skP50
			d := cal.MakeDate(2024, 4, 1)
			inv.Payment = &PaymentDetails{Advances: []*pay.Advance{{Description: "adv", Percent: &p}},
				Terms: &pay.Terms{DueDates: []*pay.DueDate{{Date: &d, Percent: &q}}}}
		}
	}
	// a rounding adjustment supplied with the document (kept by the calculation, added to the payable amount): in the
	// quick tier one more alternative next to the fixed advance (where payable and due differ), in the thorough tier an
	// independent choice
	if o.rich {
		withRounding := false
		if inv.Payment != nil && len(inv.Payment.Advances) == 1 && inv.Payment.Advances[0].Percent == nil {
			withRounding = vrt.Choice("rounding", 2) == 1
		}
		if withRounding {
			r := skAmt("rounding", curExp)
			inv.Totals = &Totals{Rounding: &r}
		}
	}
	return inv
}

func skRule(name string) cbc.Key {
	if vrt.Choice(name, 2) == 1 {
		return tax.RoundingRuleCurrency
	}
	return tax.RoundingRulePrecise
}

func skCurrency() currency.Code {
	if vrt.Thorough() {
		switch vrt.Choice("cur", 3) {
		case 1:
			return "JPY"
		case 2:
			return "BHD"
		}
	}
	return "EUR"
}

// skCurrency2: EUR, and in the thorough tier also a currency without decimals (for the document-level harnesses, whose
// shape space does not leave room for three currencies within the time budget).
func skCurrency2() currency.Code {
	if vrt.Thorough() && vrt.Choice("cur", 2) == 1 {
		return "JPY"
	}
	return "EUR"
}

func skLines() int {
	if vrt.Thorough() {
		return 1 + vrt.Choice("nlines", 2)
	}
	return 1 + vrt.Choice("nlines", 2)
}

func amtOrZero(a *num.Amount) int64 {
	if a == nil {
		return 0
	}
	return a.Value()
}
