//go:build verif

package cli

import (
	"bytes"
	"context"
	"encoding/json"

	"github.com/invopop/gobl"
	"github.com/invopop/gobl/dsig"
	"github.com/invopop/gobl/head"
	"github.com/invopop/gobl/internal/vrt"
	"github.com/invopop/gobl/note"
)

// C09 (command line / bulk / HTTP path): cli.Verify — the function every verify entry point calls — reports
// success only if the key supplied is the signer's AND the envelope's header still contains what was signed.
// Symbolic runs use the parser / JWS / validation contract stubs; native replays build a real signed envelope.

func H_C09_CliVerify() {
	tamperNotes := vrt.Choice("tamper.notes", 2) == 1 // header notes changed after signing
	tamperStamp := vrt.Choice("tamper.stamp", 2) == 1 // a stamp added after signing (allowed)
	wrongKey := vrt.Choice("wrongkey", 2) == 1
	var data []byte
	var key *dsig.PublicKey
	if vrt.Symbolic() {
		env := &gobl.Envelope{Head: &head.Header{UUID: "u", Digest: &dsig.Digest{Algorithm: "sha256", Value: "d"}, Notes: "n"}}
		signed := *env.Head
		signer, other := &dsig.PublicKey{}, &dsig.PublicKey{}
		sig := vrt.NewSignature(signer, &signed).(*dsig.Signature)
		env.Signatures = []*dsig.Signature{sig}
		if tamperNotes {
			env.Head.Notes = "m"
		}
		if tamperStamp {
			env.Head.AddStamp(&head.Stamp{Provider: "p", Value: "v"})
		}
		vrt.BindParsed(env)
		vrt.SetStub("envelope.Validate", true)
		key = signer
		if wrongKey {
			key = other
		}
		data = []byte("{}")
	} else {
		env, err := gobl.Envelop(&note.Message{Content: "hello"})
		if err != nil {
			panic(err)
		}
		env.Head.Notes = "n"
		priv, priv2 := dsig.NewES256Key(), dsig.NewES256Key()
		if err := env.Sign(priv); err != nil {
			panic(err)
		}
		if tamperNotes {
			env.Head.Notes = "m"
		}
		if tamperStamp {
			env.Head.AddStamp(&head.Stamp{Provider: "p", Value: "v"})
		}
		data, err = json.Marshal(env)
		if err != nil {
			panic(err)
		}
		key = priv.Public()
		if wrongKey {
			key = priv2.Public()
		}
	}
	err := Verify(context.Background(), bytes.NewReader(data), key)
	vrt.Known("C09-cli-verify-ignores-header", tamperNotes && !wrongKey)
	vrt.Assert((err == nil) == (!wrongKey && !tamperNotes), "cli-verify-ok-iff-signer-key-and-header-contains-signed")
}
