//go:build verif

package head

import (
	"github.com/invopop/gobl/cbc"
	"github.com/invopop/gobl/dsig"
	"github.com/invopop/gobl/internal/vrt"
	"github.com/invopop/gobl/uuid"
)

// C09 (header relation): Header.Contains(h2) holds exactly when the identifier and digest agree and every
// stamp, link, tag, meta entry and the notes of h2 are present in h.

// c09Str: a one-byte string over the alphabet {a, b}: every equal / different pattern is covered.
func c09Str(name string) string {
	return string([]byte{vrt.ByteIn(name, 'a', 'b')})
}

func c09Header(name string, maxItems int) *Header {
	h := &Header{UUID: uuid.UUID("0190c2a6-7c2a-7000-8000-00000000000" + c09Str(name+".uuid"))}
	if vrt.Choice(name+".hasdig", 2) == 1 {
		h.Digest = &dsig.Digest{Algorithm: "sha256", Value: c09Str(name + ".dig")}
	}
	for k := 0; k < vrt.Choice(name+".nstamps", maxItems+1); k++ {
		h.Stamps = append(h.Stamps, &Stamp{Provider: cbc.Key(c09Str(name + ".sp" + string(rune('0'+k)))), Value: c09Str(name + ".sv" + string(rune('0'+k)))})
	}
	for k := 0; k < vrt.Choice(name+".nlinks", maxItems+1); k++ {
		h.Links = append(h.Links, &Link{Key: cbc.Key(c09Str(name + ".lk" + string(rune('0'+k)))), URL: c09Str(name + ".lu" + string(rune('0'+k)))})
	}
	for k := 0; k < vrt.Choice(name+".ntags", maxItems+1); k++ {
		h.Tags = append(h.Tags, c09Str(name+".t"+string(rune('0'+k))))
	}
	if vrt.Choice(name+".hasmeta", 2) == 1 {
		h.Meta = cbc.Meta{cbc.Key(c09Str(name + ".mk")): c09Str(name + ".mv")}
	}
	if vrt.Choice(name+".hasnotes", 2) == 1 {
		h.Notes = c09Str(name + ".notes")
	}
	return h
}

func c09Reference(h, h2 *Header) bool {
	ok := h.UUID == h2.UUID
	if h2.Digest != nil {
		if h.Digest == nil {
			return false
		}
		ok = vrt.And(ok, vrt.And(h.Digest.Algorithm == h2.Digest.Algorithm, h.Digest.Value == h2.Digest.Value))
	}
	for _, s2 := range h2.Stamps {
		found := false
		for _, s := range h.Stamps {
			found = vrt.Or(found, vrt.And(s.Provider == s2.Provider, s.Value == s2.Value))
		}
		ok = vrt.And(ok, found)
	}
	for _, l2 := range h2.Links {
		found := false
		for _, l := range h.Links {
			found = vrt.Or(found, vrt.And(l.Key == l2.Key, l.URL == l2.URL))
		}
		ok = vrt.And(ok, found)
	}
	for _, t2 := range h2.Tags {
		found := false
		for _, t := range h.Tags {
			found = vrt.Or(found, t == t2)
		}
		ok = vrt.And(ok, found)
	}
	for k2, v2 := range h2.Meta {
		found := false
		for k, v := range h.Meta {
			found = vrt.Or(found, vrt.And(k == k2, v == v2))
		}
		ok = vrt.And(ok, found)
	}
	if h2.Notes != "" {
		ok = vrt.And(ok, h.Notes == h2.Notes)
	}
	return ok
}

// H_C09_Contains: the relation, for every pattern of equal / different field values.
func H_C09_Contains() {
	n := 1
	if vrt.Thorough() {
		n = 2
	}
	h := c09Header("h", 2)
	h2 := c09Header("s", n) // thorough: up to two signed stamps / links / tags against up to two present ones
	vrt.Known("C09-contains-nil-digest", h.Digest == nil && h2.Digest != nil)
	got := h.Contains(h2)
	vrt.Assert(vrt.Iff(got, c09Reference(h, h2)), "contains-iff-every-signed-entry-present")
}

// H_C09_ContainsMonotone: adding stamps, links, tags or meta to the envelope header keeps it containing the signed header.
func H_C09_ContainsMonotone() {
	h2 := c09Header("s", 1)
	h := c09Header("h", 1)
	if !h.Contains(h2) {
		return
	}
	h.Stamps = append(h.Stamps, &Stamp{Provider: cbc.Key(c09Str("x.sp")), Value: c09Str("x.sv")})
	h.Links = append(h.Links, &Link{Key: cbc.Key(c09Str("x.lk")), URL: c09Str("x.lu")})
	h.Tags = append(h.Tags, c09Str("x.t"))
	if h.Meta == nil {
		h.Meta = cbc.Meta{}
	}
	mk := cbc.Key(c09Str("x.mk"))
	if _, exists := h.Meta[mk]; !exists {
		h.Meta[mk] = c09Str("x.mv")
	}
	vrt.Assert(h.Contains(h2), "additions-keep-containment")
}
