//go:build verif

package gobl

import (
	"github.com/invopop/gobl/dsig"
	"github.com/invopop/gobl/head"
	"github.com/invopop/gobl/internal/vrt"
)

// C14 (envelope): verification never panics, whatever the signature list and header hold.
func H_C14_EnvelopeVerify() {
	env := &Envelope{}
	if vrt.Choice("head", 2) == 1 {
		env.Head = &head.Header{UUID: "u"}
		if vrt.Choice("dig", 2) == 1 {
			env.Head.Digest = &dsig.Digest{Algorithm: "sha256", Value: "d"}
		}
	}
	signed := &head.Header{UUID: "u", Digest: &dsig.Digest{Algorithm: "sha256", Value: "d"}}
	switch vrt.Choice("sigs", 4) {
	case 1:
		env.Signatures = []*dsig.Signature{c09Sign(signed, 0)}
	case 2:
		// what `"sigs":[""]` parses into: an entry without a JWS inside
		s := new(dsig.Signature)
		if !vrt.Symbolic() {
			_ = s.UnmarshalJSON([]byte(`""`))
		}
		env.Signatures = []*dsig.Signature{s}
	case 3:
		env.Signatures = []*dsig.Signature{nil}
	}
	var keys []*dsig.PublicKey
	if vrt.Choice("key", 2) == 1 {
		if !vrt.Symbolic() && c09Priv == nil {
			c09Sign(signed, 0)
		}
		keys = []*dsig.PublicKey{c09Pub[0]}
	}
	_ = env.Verify(keys...)
	vrt.Reach("verify-returned")
}
