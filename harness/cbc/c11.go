//go:build verif

package cbc

import (
	"strconv"

	"github.com/invopop/gobl/internal/vrt"
)

// C11 (leaf level): a key or code that the Go side accepts satisfies what the published schema file says about
// it (pattern, minLength, maxLength), for every ASCII string within the bound. The empty string stands for an
// absent member and is not a conformance question.

func c11Limits(rel string) (min, max int) {
	min, _ = strconv.Atoi(vrt.SchemaValue(rel, "minLength"))
	max, _ = strconv.Atoi(vrt.SchemaValue(rel, "maxLength"))
	return
}

func c11MaxLen() int {
	if vrt.Thorough() {
		return 6
	}
	return 4
}

func H_C11_Key() {
	vrt.Unwind(500)
	pat := vrt.SchemaValue("cbc/key.json", "pattern")
	min, max := c11Limits("cbc/key.json")
	vrt.Assert(pat != "" && min > 0 && max > 0, "key-schema-published")
	n := 1 + vrt.Choice("n", c11MaxLen())
	s := vrt.ASCIIString("s", n)
	if Key(s).Validate() == nil {
		vrt.Assert(vrt.MatchesPattern(s, pat), "accepted-key-matches-published-pattern")
		vrt.Assert(n >= min && n <= max, "accepted-key-within-published-length")
	}
	// the length limit, on a string that satisfies the pattern
	long := make([]byte, max+1)
	for i := range long {
		long[i] = 'a'
	}
	vrt.Assert(Key(string(long)).Validate() != nil, "key-longer-than-published-maximum-refused")
}

func H_C11_Code() {
	vrt.Unwind(500)
	pat := vrt.SchemaValue("cbc/code.json", "pattern")
	min, max := c11Limits("cbc/code.json")
	vrt.Assert(pat != "" && min > 0 && max > 0, "code-schema-published")
	n := 1 + vrt.Choice("n", c11MaxLen())
	s := vrt.ASCIIString("s", n)
	if Code(s).Validate() == nil {
		vrt.Assert(vrt.MatchesPattern(s, pat), "accepted-code-matches-published-pattern")
		vrt.Assert(n >= min && n <= max, "accepted-code-within-published-length")
	}
	long := make([]byte, max+1)
	for i := range long {
		long[i] = 'A'
	}
	vrt.Assert(Code(string(long)).Validate() != nil, "code-longer-than-published-maximum-refused")
}

// H_C11_KeyTooLong: no string of exactly one byte more than the published maximum is accepted as a key, whatever its
// bytes are (in particular whatever its split into '+'-joined parts is).
func H_C11_KeyTooLong() {
	vrt.Unwind(2000)
	_, max := c11Limits("cbc/key.json")
	vrt.Assert(max > 0, "key-schema-published")
	s := vrt.ASCIIString("s", max+1)
	vrt.Assert(Key(s).Validate() != nil, "key-longer-than-published-maximum-refused-whatever-its-content")
	// and two directed shapes: parts that are each within the limit
	part := make([]byte, 40)
	for i := range part {
		part[i] = 'a'
	}
	vrt.Assert(Key(string(part)+"+"+string(part)).Validate() != nil, "composite-key-longer-than-published-maximum-refused")
}
