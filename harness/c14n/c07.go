//go:build verif

package c14n

import (
	"encoding/json"
	"strconv"
	"strings"

	"github.com/invopop/gobl/internal/vrt"
)

// C07 — canonical JSON follows its specification (package units; decoder and float formatter are contract stubs).

func c07N() int {
	if vrt.Thorough() {
		return 4
	}
	return 3
}

// c07ValidUTF8: RFC 3629 well-formed byte sequences (no overlongs, no surrogates, <= U+10FFFF).
func c07ValidUTF8(s []byte) bool {
	i := 0
	for i < len(s) {
		b := s[i]
		switch {
		case b < 0x80:
			i++
		case b >= 0xC2 && b <= 0xDF:
			if i+1 >= len(s) || !c07Cont(s[i+1], 0x80, 0xBF) {
				return false
			}
			i += 2
		case b >= 0xE0 && b <= 0xEF:
			lo, hi := byte(0x80), byte(0xBF)
			if b == 0xE0 {
				lo = 0xA0
			}
			if b == 0xED {
				hi = 0x9F
			}
			if i+2 >= len(s) || !c07Cont(s[i+1], lo, hi) || !c07Cont(s[i+2], 0x80, 0xBF) {
				return false
			}
			i += 3
		case b >= 0xF0 && b <= 0xF4:
			lo, hi := byte(0x80), byte(0xBF)
			if b == 0xF0 {
				lo = 0x90
			}
			if b == 0xF4 {
				hi = 0x8F
			}
			if i+3 >= len(s) || !c07Cont(s[i+1], lo, hi) || !c07Cont(s[i+2], 0x80, 0xBF) || !c07Cont(s[i+3], 0x80, 0xBF) {
				return false
			}
			i += 4
		default:
			return false
		}
	}
	return true
}

func c07Cont(b, lo, hi byte) bool { return b >= lo && b <= hi }

const c07Hex = "0123456789ABCDEF"

// c07Encode: README rule 8 — minimal escapes.
func c07Encode(s []byte) []byte {
	out := []byte{'"'}
	for _, b := range s {
		switch {
		case b == '"':
			out = append(out, '\\', '"')
		case b == '\\':
			out = append(out, '\\', '\\')
		case b == '\b':
			out = append(out, '\\', 'b')
		case b == '\t':
			out = append(out, '\\', 't')
		case b == '\n':
			out = append(out, '\\', 'n')
		case b == '\f':
			out = append(out, '\\', 'f')
		case b == '\r':
			out = append(out, '\\', 'r')
		case b < 0x20:
			out = append(out, '\\', 'u', '0', '0', c07Hex[b>>4], c07Hex[b&0xF])
		default:
			out = append(out, b)
		}
	}
	return append(out, '"')
}

// H_C07_EncodeString: every byte string of length 0..N: rejected iff not valid UTF-8, otherwise the minimal-escape form.
func H_C07_EncodeString() {
	n := vrt.Choice("n", c07N()+1)
	b := vrt.Bytes("s", n)
	got, err := encodeString(string(b))
	valid := c07ValidUTF8(b)
	vrt.Known("C07-replacement-character-rejected", c07HasFFFD(b))
	vrt.Assert((err == nil) == valid, "rejected-iff-invalid-utf8")
	if err == nil && valid {
		want := c07Encode(b)
		vrt.Assert(string(got) == string(want), "minimal-escapes")
	}
}

func c07HasFFFD(s []byte) bool {
	for i := 0; i+2 < len(s); i++ {
		if s[i] == 0xEF && s[i+1] == 0xBF && s[i+2] == 0xBD {
			return true
		}
	}
	return false
}

// H_C07_Integer: every int64: plain digits, no "-0", parses back.
func H_C07_Integer() {
	v := vrt.Int64("v")
	out, err := Integer(v).MarshalJSON()
	vrt.Assert(err == nil, "integer-marshals")
	s := string(out)
	vrt.Assert(vrt.MatchesPattern(s, `^-?(0|[1-9][0-9]*)$`), "integer-plain-digits")
	vrt.Assert(s != "-0", "no-negative-zero")
	back, perr := strconv.ParseInt(s, 10, 64)
	vrt.Assert(perr == nil && back == v, "integer-parses-back")
}

func c07Value(name string) Canonicalable {
	switch vrt.Choice(name+".kind", 4) {
	case 1:
		return Null{}
	case 2:
		return Bool(vrt.Choice(name+".bool", 2) == 1)
	case 3:
		return String(string([]byte{vrt.ByteIn(name+".str", 'a', 'c')}))
	}
	return Integer(vrt.Int64In(name+".int", -99, 99))
}

// c07Canonical: recogniser for a canonical object text with one-byte keys and the value kinds of c07Value:
// members in strictly ascending key order, none with a null value, commas exactly between members.
func c07MemberText(key byte, v Canonicalable) string {
	val, _ := v.MarshalJSON()
	return `"` + string([]byte{key}) + `":` + string(val)
}

// H_C07_Object: objects with up to three members: sorted, null members removed, separators right, independent of member order.
func H_C07_Object() {
	n := vrt.Choice("n", 4)
	keys := make([]byte, n)
	vals := make([]Canonicalable, n)
	for k := 0; k < n; k++ {
		keys[k] = vrt.ByteIn("k"+string(rune('0'+k)), 'a', 'd')
		vals[k] = c07Value("v" + string(rune('0'+k)))
		for j := 0; j < k; j++ {
			vrt.Assume(keys[j] != keys[k]) // duplicate-free
		}
	}
	build := func(order []int) *Object {
		o := &Object{}
		for _, k := range order {
			o.Attributes = append(o.Attributes, &Attribute{Key: string([]byte{keys[k]}), Value: vals[k]})
		}
		return o
	}
	ident := make([]int, n)
	rev := make([]int, n)
	for k := 0; k < n; k++ {
		ident[k] = k
		rev[k] = n - 1 - k
	}
	o1 := build(ident)
	o1.Sort()
	got, err := o1.MarshalJSON()
	vrt.Assert(err == nil, "object-marshals")
	// reference: ascending keys, null members skipped, comma-separated
	want := "{"
	first := true
	for c := byte('a'); c <= 'd'; c++ {
		for k := 0; k < n; k++ {
			if _, isNull := vals[k].(Null); isNull {
				continue
			}
			if vrt.Concretize(int(keys[k])) == int(c) {
				if !first {
					want += ","
				}
				want += c07MemberText(c, vals[k])
				first = false
			}
		}
	}
	want += "}"
	vrt.Known("C07-null-first-member-comma", c07NullBeforeNonNull(keys, vals))
	vrt.Assert(string(got) == want, "object-canonical-form")
	o2 := build(rev)
	o2.Sort()
	got2, _ := o2.MarshalJSON()
	vrt.Assert(string(got2) == string(got), "object-independent-of-member-order")
}

// c07NullBeforeNonNull: after sorting, some null member precedes a non-null member.
func c07NullBeforeNonNull(keys []byte, vals []Canonicalable) bool {
	res := false
	for a := range keys {
		if _, isNull := vals[a].(Null); !isNull {
			continue
		}
		for b := range keys {
			if _, isNull := vals[b].(Null); isNull {
				continue
			}
			res = vrt.Or(res, keys[a] < keys[b])
		}
	}
	return res
}

// H_C07_Array: arrays keep null values and element order.
func H_C07_Array() {
	n := vrt.Choice("n", 4)
	a := &Array{}
	want := "["
	for k := 0; k < n; k++ {
		v := c07Value("e" + string(rune('0'+k)))
		a.Values = append(a.Values, v)
		t, _ := v.MarshalJSON()
		if k > 0 {
			want += ","
		}
		want += string(t)
	}
	want += "]"
	got, err := a.MarshalJSON()
	vrt.Assert(err == nil && string(got) == want, "array-keeps-nulls-and-order")
}

// H_C07_Float: the float formatter is a contract stub: strconv.AppendFloat(_, f, 'E', -1, 64) yields text of the
// documented form -?d(.d+)?E[+-]dd+ (symbolic); the post-processing must give README rule 7 and keep the digits.
func H_C07_Float() {
	neg := vrt.Choice("neg", 2) == 1
	nfrac := vrt.Choice("nfrac", 3) // 0..2 fraction digits
	nexp := 2 + vrt.Choice("nexp", 2) // 2..3 exponent digits
	var txt []byte
	if neg {
		txt = append(txt, '-')
	}
	// the documented shape of the shortest 'E' format: non-zero leading digit, no trailing zero in the
	// fraction, exponent of at least two digits without a leading zero when it has three
	lead := vrt.ByteIn("lead", '1', '9')
	txt = append(txt, lead)
	var frac []byte
	if nfrac > 0 {
		txt = append(txt, '.')
		for k := 0; k < nfrac; k++ {
			d := vrt.ByteIn("f"+string(rune('0'+k)), '0', '9')
			frac = append(frac, d)
			txt = append(txt, d)
		}
	}
	txt = append(txt, 'E')
	eneg := vrt.Choice("eneg", 2) == 1
	if eneg {
		txt = append(txt, '-')
	} else {
		txt = append(txt, '+')
	}
	var exp []byte
	for k := 0; k < nexp; k++ {
		d := vrt.ByteIn("e"+string(rune('0'+k)), '0', '9')
		exp = append(exp, d)
		txt = append(txt, d)
	}
	if nfrac > 0 {
		vrt.Assume(frac[nfrac-1] != '0')
	}
	if nexp == 3 {
		vrt.Assume(exp[0] != '0')
	}
	if !vrt.Symbolic() {
		// natively the formatter is the real one: replay on the float the text denotes
		f, err := strconv.ParseFloat(string(txt), 64)
		if err != nil {
			return
		}
		real := strconv.AppendFloat(nil, f, 'E', -1, 64)
		if string(real) != string(txt) {
			return // the model text is not what the real formatter prints for any float: not a replayable case
		}
		out, _ := Float(f).MarshalJSON()
		c07CheckFloat(out, neg, lead, frac, eneg, exp)
		return
	}
	vrt.SetStub("strconv.AppendFloat", txt)
	out, err := Float(1).MarshalJSON()
	vrt.Assert(err == nil, "float-marshals")
	c07CheckFloat(out, neg, lead, frac, eneg, exp)
}

func c07CheckFloat(out []byte, neg bool, lead byte, frac []byte, eneg bool, exp []byte) {
	vrt.Known("C07-negative-float-mangled", neg)
	vrt.Assert(vrt.MatchesPattern(string(out), `^-?[0-9]\.[0-9]+E-?(0|[1-9][0-9]*)$`), "float-exponential-form")
	// same digits: mantissa
	want := ""
	if neg {
		want = "-"
	}
	want += string([]byte{lead}) + "."
	if len(frac) == 0 {
		want += "0"
	} else {
		want += string(frac)
	}
	want += "E"
	if eneg {
		want += "-"
	}
	// exponent without insignificant leading zeros (at least one digit)
	k := 0
	for k < len(exp)-1 && vrt.Concretize(int(exp[k])) == '0' {
		k++
	}
	want += string(exp[k:])
	vrt.Known("C07-negative-float-mangled", neg)
	vrt.Assert(string(out) == want, "float-keeps-digits-and-exponent")
}

// ---- token layer: the decoder is a contract stub (token source with properly nested delimiters, EOF possible at
// any point — which is what truncated input produces); natively the stream is rendered as text for the real decoder.

// c07Tok kinds: 0 '{', 1 '}', 2 '[', 3 ']', 4 string, 5 integer, 6 null
type c07Tok struct {
	kind int
	str  string
	num  int
}

// c07Stream draws a token stream of at most max tokens that a decoder could emit for some input prefix:
// delimiters nested and matched, object members alternate key (string) and value, end of input anywhere.
func c07Stream(max int) (toks []c07Tok, complete bool, values int) {
	var stack []int // 0 = object expecting key, 1 = object expecting value, 2 = array
	top := 0        // number of completed top-level values
	for len(toks) < max {
		var allowed []int
		if len(stack) == 0 {
			allowed = []int{0, 2, 4, 5, 6}
		} else {
			switch stack[len(stack)-1] {
			case 0:
				allowed = []int{1, 4}
			case 1:
				allowed = []int{0, 2, 4, 5, 6}
			default:
				allowed = []int{0, 2, 3, 4, 5, 6}
			}
		}
		if len(stack) == 0 && top > 0 {
			// after a complete value: also a stray closing delimiter or colon (which the decoder reports as a syntax error)
			allowed = append(allowed, 7, 8, 9)
		}
		c := vrt.Choice("t"+string(rune('0'+len(toks))), len(allowed)+1)
		if c == len(allowed) {
			break // end of input here
		}
		k := allowed[c]
		if k >= 7 {
			toks = append(toks, c07Tok{kind: k})
			return toks, false, top // the input is not a single complete value; nothing can follow a syntax error
		}
		t := c07Tok{kind: k}
		if k == 4 {
			t.str = string(rune('a' + len(toks)))
		}
		if k == 5 {
			t.num = len(toks) + 1
		}
		toks = append(toks, t)
		// value completed / container opened or closed
		isKey := len(stack) > 0 && stack[len(stack)-1] == 0 && k == 4
		switch {
		case isKey:
			stack[len(stack)-1] = 1
		case k == 0:
			stack = append(stack, 0)
		case k == 2:
			stack = append(stack, 2)
		case k == 1 || k == 3:
			stack = stack[:len(stack)-1]
			fallthrough
		default:
			// a value has just been completed
			if len(stack) == 0 {
				top++
			} else if stack[len(stack)-1] == 1 {
				stack[len(stack)-1] = 0
			}
		}
	}
	return toks, len(stack) == 0, top
}

func c07Render(toks []c07Tok) string {
	out := ""
	var stack []int // per container: number of items written; object: 2 per member
	var kinds []int
	for _, t := range toks {
		if t.kind == 1 || t.kind == 3 {
			stack, kinds = stack[:len(stack)-1], kinds[:len(kinds)-1]
			if t.kind == 1 {
				out += "}"
			} else {
				out += "]"
			}
			continue
		}
		if t.kind >= 7 {
			out += " " + string("}]:"[t.kind-7])
			continue
		}
		if len(stack) > 0 {
			n := stack[len(stack)-1]
			if kinds[len(kinds)-1] == 0 {
				if n%2 == 1 {
					out += ":"
				} else if n > 0 {
					out += ","
				}
			} else if n > 0 {
				out += ","
			}
			stack[len(stack)-1]++
		} else if out != "" {
			out += " "
		}
		switch t.kind {
		case 0:
			out += "{"
			stack, kinds = append(stack, 0), append(kinds, 0)
		case 2:
			out += "["
			stack, kinds = append(stack, 0), append(kinds, 2)
		case 4:
			out += `"` + t.str + `"`
		case 5:
			out += strconv.Itoa(t.num)
		case 6:
			out += "null"
		}
	}
	return out
}

// H_C07_Tokens: a token stream that is not exactly one complete JSON value is rejected with an error (never a
// panic, never silently accepted); one complete value yields output.
func H_C07_Tokens() {
	max := 4
	if vrt.Thorough() {
		max = 5
	}
	toks, complete, values := c07Stream(max)
	text := c07Render(toks)
	if vrt.Symbolic() {
		list := make([]interface{}, len(toks))
		for i, t := range toks {
			switch t.kind {
			case 0:
				list[i] = json.Delim('{')
			case 1:
				list[i] = json.Delim('}')
			case 2:
				list[i] = json.Delim('[')
			case 3:
				list[i] = json.Delim(']')
			case 4:
				list[i] = t.str
			case 5:
				list[i] = json.Number(strconv.Itoa(t.num))
			case 7, 8, 9:
				list[i] = vrt.StraySyntax(string("}]:"[t.kind-7])) // the decoder stub answers with a syntax error here
			default:
				list[i] = nil
			}
		}
		vrt.SetStub("json.tokens", list)
	}
	out, err := CanonicalJSON(strings.NewReader(text))
	one := complete && values == 1
	vrt.Known("C07-incomplete-input-accepted", !one)
	vrt.Assert((err == nil) == one, "accepted-iff-exactly-one-complete-value")
	if err == nil && one {
		vrt.Assert(len(out) > 0, "complete-value-has-output")
	}
}
