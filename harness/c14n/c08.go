//go:build verif

package c14n

import "github.com/invopop/gobl/internal/vrt"

// C08 lemmas — the digest check of C08 treats canonicalisation as injective on document content. For the string
// leaf that is decided here instead of assumed.

// H_C08_StringInjective (2-safety over the real encodeString): two different strings never have the same
// canonical form.
func H_C08_StringInjective() {
	max := 1
	if vrt.Thorough() {
		max = 2
	}
	n1 := vrt.Choice("n1", max+1)
	n2 := vrt.Choice("n2", max+1)
	b1 := vrt.Bytes("s1", n1)
	b2 := vrt.Bytes("s2", n2)
	o1, e1 := encodeString(string(b1))
	o2, e2 := encodeString(string(b2))
	if e1 != nil || e2 != nil {
		return
	}
	vrt.Reach("both-strings-canonicalise")
	same := n1 == n2
	if same {
		for k := 0; k < n1; k++ {
			same = vrt.And(same, b1[k] == b2[k])
		}
	}
	vrt.Assert(vrt.Implies(string(o1) == string(o2), same), "different-strings-have-different-canonical-forms")
}

func c08Hex(b byte) (byte, bool) {
	switch {
	case b >= '0' && b <= '9':
		return b - '0', true
	case b >= 'a' && b <= 'f':
		return b - 'a' + 10, true
	case b >= 'A' && b <= 'F':
		return b - 'A' + 10, true
	}
	return 0, false
}

// c08Unescape: JSON string unescaping (RFC 8259 section 7) restricted to escapes of code points below 0x100.
func c08Unescape(out []byte) ([]byte, bool) {
	if len(out) < 2 || out[0] != '"' || out[len(out)-1] != '"' {
		return nil, false
	}
	body := out[1 : len(out)-1]
	var res []byte
	for i := 0; i < len(body); i++ {
		b := body[i]
		if b != '\\' {
			if b == '"' || b < 0x20 {
				return nil, false // must have been escaped
			}
			res = append(res, b)
			continue
		}
		i++
		if i >= len(body) {
			return nil, false
		}
		switch body[i] {
		case '"':
			res = append(res, '"')
		case '\\':
			res = append(res, '\\')
		case '/':
			res = append(res, '/')
		case 'b':
			res = append(res, '\b')
		case 'f':
			res = append(res, '\f')
		case 'n':
			res = append(res, '\n')
		case 'r':
			res = append(res, '\r')
		case 't':
			res = append(res, '\t')
		case 'u':
			if i+4 >= len(body) {
				return nil, false
			}
			h0, k0 := c08Hex(body[i+1])
			h1, k1 := c08Hex(body[i+2])
			h2, k2 := c08Hex(body[i+3])
			h3, k3 := c08Hex(body[i+4])
			if !k0 || !k1 || !k2 || !k3 || h0 != 0 || h1 != 0 {
				return nil, false
			}
			v := h2<<4 | h3
			if v >= 0x80 {
				return nil, false
			}
			res = append(res, v)
			i += 4
		default:
			return nil, false
		}
	}
	return res, true
}

// H_C08_StringDecodes: the canonical form of every accepted string unescapes (RFC 8259) to that string, so the
// canonical form determines the string.
func H_C08_StringDecodes() {
	n := vrt.Choice("n", c07N()+1)
	b := vrt.Bytes("s", n)
	out, err := encodeString(string(b))
	if err != nil {
		return
	}
	back, ok := c08Unescape(out)
	vrt.Assert(ok, "canonical-string-is-a-json-string")
	if !ok {
		return
	}
	vrt.Assert(string(back) == string(b), "canonical-string-unescapes-to-the-original")
}
