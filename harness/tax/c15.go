//go:build verif

package tax

import (
	"github.com/invopop/gobl/cbc"
	"github.com/invopop/gobl/internal/vrt"
)

// C15 (sufficient condition named by the property's mechanism): shared definitions are never written after
// initialisation — the merge helpers must copy. Operands are frozen; list capacities are part of the shape
// (appending into a shared list's spare capacity is the classic hazard).

func c15Defs(name string, n, spare int) []*cbc.Definition {
	l := make([]*cbc.Definition, n, n+spare)
	for k := 0; k < n; k++ {
		l[k] = &cbc.Definition{Key: cbc.Key(name + string(rune('a'+k)))}
	}
	return l
}

// H_C15_TagSetMerge: merging two other sets into the same shared set gives independent results and leaves it alone.
func H_C15_TagSetMerge() {
	n := vrt.Choice("n", 3)
	spare := vrt.Choice("spare", 3)
	ts := &TagSet{Schema: "bill/invoice", List: c15Defs("t", n, spare)}
	o1 := &TagSet{Schema: "bill/invoice", List: c15Defs("x", 1+vrt.Choice("n1", 2), 0)}
	o2 := &TagSet{Schema: "bill/invoice", List: c15Defs("y", 1, 0)}
	if vrt.Choice("dup", 2) == 1 && n > 0 {
		o1.List[0] = &cbc.Definition{Key: ts.List[0].Key} // already present: not added twice
	}
	vrt.Freeze(ts, "shared tag set")
	vrt.Freeze(o1, "tag set operand 1")
	vrt.Freeze(o2, "tag set operand 2")
	r1 := ts.Merge(o1)
	want1 := len(ts.List) + len(o1.List)
	if len(o1.List) > 0 && n > 0 && o1.List[0].Key == ts.List[0].Key {
		want1--
	}
	vrt.Assert(len(r1.List) == want1, "merge-is-union-without-duplicates")
	last1 := r1.List[len(r1.List)-1].Key
	r2 := ts.Merge(o2)
	vrt.Assert(len(ts.List) == n, "shared-set-keeps-its-length")
	vrt.Assert(len(r2.List) == n+1 && r2.List[n].Key == "ya", "second-merge-has-its-own-element")
	vrt.Assert(r1.List[len(r1.List)-1].Key == last1, "first-result-unaffected-by-second-merge")
}

// H_C15_CorrectionMerge: the receiver definition is not written, two results from one receiver are independent.
func H_C15_CorrectionMerge() {
	spare := vrt.Choice("spare", 3)
	types := make([]cbc.Key, 1, 1+spare)
	types[0] = "credit-note"
	stamps := make([]cbc.Key, 1, 1+spare)
	stamps[0] = "stamp-a"
	cd := &CorrectionDefinition{Schema: "bill/invoice", Types: types, Stamps: stamps, ReasonRequired: vrt.Choice("reason", 2) == 1}
	o1 := &CorrectionDefinition{Schema: "bill/invoice", Types: []cbc.Key{"debit-note"}, Stamps: []cbc.Key{"stamp-b"}, CopyTax: vrt.Choice("copytax", 2) == 1, ReasonRequired: vrt.Choice("reason1", 2) == 1}
	o2 := &CorrectionDefinition{Schema: "bill/invoice", Types: []cbc.Key{"corrective"}, Extensions: []cbc.Key{"ext-k"}}
	vrt.Freeze(cd, "shared correction definition")
	vrt.Freeze(o1, "correction operand 1")
	vrt.Freeze(o2, "correction operand 2")
	r1 := cd.Merge(o1)
	vrt.Assert(len(r1.Types) == 2 && r1.Types[0] == "credit-note" && r1.Types[1] == "debit-note", "types-are-concatenated")
	vrt.Assert(r1.CopyTax == o1.CopyTax && r1.ReasonRequired == (cd.ReasonRequired || o1.ReasonRequired), "flags-are-combined")
	vrt.Assert(len(r1.Stamps) == 2 && r1.Stamps[1] == "stamp-b", "stamps-are-concatenated")
	r2 := cd.Merge(o2)
	vrt.Assert(len(r2.Types) == 2 && r2.Types[1] == "corrective" && !r2.CopyTax || cd.CopyTax, "second-merge-independent")
	vrt.Assert(r1.Types[1] == "debit-note" && r1.Stamps[1] == "stamp-b", "first-result-unaffected-by-second-merge")
	vrt.Assert(len(cd.Types) == 1 && !cd.CopyTax, "receiver-definition-unchanged")
}

// H_C15_ExtensionsMerge: the merged map is new whenever both operands hold entries; operands untouched.
func H_C15_ExtensionsMerge() {
	var a, b Extensions
	if vrt.Choice("a", 2) == 1 {
		a = Extensions{"k1": "v1", "k2": "v2"}
	}
	if vrt.Choice("b", 2) == 1 {
		b = Extensions{"k2": "w2", "k3": "v3"}
	}
	vrt.Freeze(a, "extensions a")
	vrt.Freeze(b, "extensions b")
	m := a.Merge(b)
	if a != nil && b != nil {
		vrt.Assert(len(m) == 3 && m["k1"] == "v1" && m["k2"] == "w2" && m["k3"] == "v3", "merged-extensions-content")
		m["k9"] = "new"
		vrt.Assert(len(a) == 2 && len(b) == 2, "operands-not-aliased-by-result")
	} else {
		vrt.Assert(len(m) == len(a)+len(b), "one-sided-merge-content")
	}
}

// H_C15_ScenarioMerge: the scenario lists of the regime / addon sets are only read.
func H_C15_ScenarioMerge() {
	spare := vrt.Choice("spare", 2)
	l1 := make([]*Scenario, 1, 1+spare)
	l1[0] = &Scenario{Name: nil}
	shared := []*ScenarioSet{{Schema: "bill/invoice", List: l1}, {Schema: "bill/invoice", List: []*Scenario{{}, {}}}}
	vrt.Freeze(shared, "shared scenario sets")
	a := NewScenarioSet("bill/invoice")
	a.Merge(shared)
	b := NewScenarioSet("bill/invoice")
	b.Merge(shared[:1])
	b.List = append(b.List, &Scenario{})
	vrt.Assert(len(a.List) == 3 && len(b.List) == 2 && len(shared[0].List) == 1, "scenario-merge-copies")
	vrt.Assert(a.List[1] == shared[1].List[0], "first-merge-unaffected")
}
