//go:build verif

package tax

import (
	"time"

	"cloud.google.com/go/civil"

	"github.com/invopop/gobl/cal"
	"github.com/invopop/gobl/cbc"
	"github.com/invopop/gobl/internal/vrt"
	"github.com/invopop/gobl/num"
)

// C12 — the rate applied on a date is the one in force on that date.

func c12SymDate(name string) cal.Date {
	y := vrt.IntIn(name+".y", 1900, 2100)
	m := vrt.IntIn(name+".m", 1, 12)
	d := vrt.IntIn(name+".d", 1, 31)
	dt := cal.Date{Date: civil.Date{Year: y, Month: time.Month(m), Day: d}}
	vrt.Assume(dt.Date.IsValid())
	return dt
}

func c12DateNum(d civil.Date) int { return d.Year*10000 + int(d.Month)*100 + d.Day }

// c12Applies: the value's tag / extension qualifiers admit the context.
func c12Applies(rv *RateValueDef, tags []cbc.Key, ext Extensions) bool {
	if len(rv.Tags) > 0 {
		found := false
		for _, t := range rv.Tags {
			for _, u := range tags {
				if t == u {
					found = true
				}
			}
		}
		if !found {
			return false
		}
	}
	for k, v := range rv.Ext {
		if ext == nil || ext[k] != v {
			return false
		}
	}
	return true
}

// c12Reference: the applicable value with the latest start date on or before the date
// (a value without start date is in force since ever); nil when there is none.
func c12Reference(values []*RateValueDef, date cal.Date, tags []cbc.Key, ext Extensions) (best *RateValueDef, bestNum int, found bool) {
	dn := c12DateNum(date.Date)
	for _, rv := range values {
		if !c12Applies(rv, tags, ext) {
			continue
		}
		sn := -1
		if rv.Since != nil && rv.Since.IsValid() {
			sn = c12DateNum(rv.Since.Date)
		}
		if sn <= dn {
			if !found || sn > bestNum {
				best, bestNum, found = rv, sn, true
			}
		}
	}
	return
}

// H_C12_Shipped: every shipped regime x category x rate key x qualifier context, for every valid date.
func H_C12_Shipped() {
	defs := c12SortedDefs()
	r := defs[vrt.Choice("regime", len(defs))]
	if len(r.Categories) == 0 {
		return
	}
	cat := r.Categories[vrt.Choice("cat", len(r.Categories))]
	if len(cat.Rates) == 0 {
		return
	}
	rd := cat.Rates[vrt.Choice("rate", len(cat.Rates))]
	if len(rd.Values) == 0 {
		return
	}
	// the table lists its unqualified values in strictly descending date order
	vrt.Assert(checkRateValuesOrder(rd.Values) == nil, "shipped-table-order-accepted")
	prev := 1 << 40
	for _, rv := range rd.Values {
		if len(rv.Tags) > 0 || len(rv.Ext) > 0 {
			continue
		}
		sn := -1
		if rv.Since != nil && rv.Since.IsValid() {
			sn = c12DateNum(rv.Since.Date)
		}
		vrt.Assert(sn < prev, "shipped-table-strictly-descending")
		prev = sn
	}
	// qualifier context: none, or the tags / ext of one of the values
	var tags []cbc.Key
	var ext Extensions
	ctx := vrt.Choice("ctx", len(rd.Values)+1)
	if ctx > 0 {
		tags = rd.Values[ctx-1].Tags
		ext = rd.Values[ctx-1].Ext
	}
	date := c12SymDate("date")
	got := rd.Value(date, tags, ext)
	want, _, found := c12Reference(rd.Values, date, tags, ext)
	vrt.Known("C12-start-date-exclusive", c12OnAStartDate(rd.Values, date))
	vrt.Assert((got != nil) == found, "value-exists-iff-some-value-in-force")
	if got != nil && found {
		vrt.Known("C12-start-date-exclusive", c12OnAStartDate(rd.Values, date))
		vrt.Assert(got.Percent == want.Percent, "value-is-latest-on-or-before")
	}
}

func c12OnAStartDate(values []*RateValueDef, date cal.Date) bool {
	on := false
	dn := c12DateNum(date.Date)
	for _, rv := range values {
		if rv.Since != nil && rv.Since.IsValid() {
			on = vrt.Or(on, c12DateNum(rv.Since.Date) == dn)
		}
	}
	return on
}

// H_C12_Generic: arbitrary table of up to three unqualified values with symbolic dates:
// if the order check accepts it, dates are strictly descending and Value picks latest-on-or-before.
func H_C12_Generic() {
	n := 1 + vrt.Choice("n", 3)
	values := make([]*RateValueDef, n)
	for k := 0; k < n; k++ {
		rv := &RateValueDef{Percent: num.MakePercentage(int64(k+1), 2)}
		if k < n-1 || vrt.Choice("lastdated", 2) == 1 {
			d := c12SymDate("s" + string(rune('0'+k)))
			rv.Since = &d
		}
		values[k] = rv
	}
	date := c12SymDate("date")
	if checkRateValuesOrder(values) != nil {
		return
	}
	for k := 1; k < n; k++ {
		if values[k].Since != nil {
			vrt.Assert(c12DateNum(values[k].Since.Date) < c12DateNum(values[k-1].Since.Date), "accepted-order-is-strictly-descending")
		}
	}
	rd := &RateDef{Values: values}
	got := rd.Value(date, nil, nil)
	want, _, found := c12Reference(values, date, nil, nil)
	vrt.Known("C12-start-date-exclusive", c12OnAStartDate(values, date))
	vrt.Assert((got != nil) == found, "generic-value-exists-iff-in-force")
	if got != nil && found {
		vrt.Known("C12-start-date-exclusive", c12OnAStartDate(values, date))
		vrt.Assert(got == want, "generic-value-is-latest-on-or-before")
	}
}

// H_C12_PrepareRate: the combo receives the chosen percentage and surcharge; exempt keys none; no value is an error.
func H_C12_PrepareRate() {
	defs := c12SortedDefs()
	r := defs[vrt.Choice("regime", len(defs))]
	if len(r.Categories) == 0 {
		return
	}
	cat := r.Categories[vrt.Choice("cat", len(r.Categories))]
	if len(cat.Rates) == 0 {
		return
	}
	rd := cat.Rates[vrt.Choice("rate", len(cat.Rates))]
	date := c12SymDate("date")
	c := &Combo{Category: cat.Code, Rate: rd.Key, Percent: num.NewPercentage(77, 3)}
	if vrt.Choice("stale-surcharge", 2) == 1 {
		// a surcharge left by an earlier calculation or supplied in the input must not survive
		c.Surcharge = num.NewPercentage(33, 3)
	}
	err := c.prepareRate(cat, nil, date)
	if rd.Exempt {
		vrt.Assert(err == nil && c.Percent == nil && c.Surcharge == nil, "exempt-key-has-no-percent")
		return
	}
	if len(rd.Values) == 0 {
		vrt.Assert(err == nil, "no-values-no-error")
		return
	}
	want, _, found := c12Reference(rd.Values, date, nil, c.Ext)
	vrt.Known("C12-start-date-exclusive", c12OnAStartDate(rd.Values, date))
	vrt.Assert((err == nil) == found, "error-iff-no-value-in-force")
	if err == nil && found {
		vrt.Known("C12-start-date-exclusive", c12OnAStartDate(rd.Values, date))
		vrt.Assert(c.Percent != nil && *c.Percent == want.Percent, "combo-percent-is-table-value")
		if want.Surcharge != nil {
			vrt.Assert(c.Surcharge != nil && *c.Surcharge == *want.Surcharge, "combo-surcharge-copied")
		} else {
			vrt.Assert(c.Surcharge == nil, "combo-no-surcharge")
		}
	}
}

// c12SortedDefs: the registered regimes in country-code order (registration order depends on the binary).
func c12SortedDefs() []*RegimeDef {
	defs := append([]*RegimeDef{}, AllRegimeDefs()...)
	for a := 1; a < len(defs); a++ {
		for b := a; b > 0 && defs[b].Country < defs[b-1].Country; b-- {
			defs[b], defs[b-1] = defs[b-1], defs[b]
		}
	}
	return defs
}
