//go:build verif

package tax

import (
	"github.com/invopop/gobl/cal"
	"github.com/invopop/gobl/cbc"
	"github.com/invopop/gobl/currency"
	"github.com/invopop/gobl/internal/vrt"
	"github.com/invopop/gobl/l10n"
	"github.com/invopop/gobl/num"
)

// C02 — the tax summary partitions taxable amounts and sums them correctly.

type c02Line struct {
	taxes Set
	total num.Amount
}

func (l *c02Line) GetTaxes() Set         { return l.taxes }
func (l *c02Line) GetTotal() num.Amount  { return l.total }

const c02Dom = int64(1) << 36

// c02Combo: explicit-percentage combo (no regime): percent present or not (exempt), optional surcharge,
// extension none / v1 / v2, country "" / "XX". Percent values are symbolic (one decimal, 0.0 % .. 100.0 %).
func c02Combo(name string, cat cbc.Code, rich bool) *Combo {
	c := &Combo{Category: cat}
	if name == "l0.a" {
		// the first line's combo is the reference row (21 % with optional surcharge, or exempt; extension v1);
		// the second line's combo ranges over every attribute combination relative to it (and in the thorough
		// tier a third line over a smaller set of combinations)
		c.Ext = Extensions{"k": "v1"}
		if vrt.Choice(name+".exempt", 2) == 1 {
			// an exempt reference row: exempt rows of different country or extensions must stay apart too
			return c
		}
		p := num.MakePercentage(210, 3)
		c.Percent = &p
		if vrt.Choice(name+".hassur", 2) == 1 {
			s := num.MakePercentage(52, 3)
			c.Surcharge = &s
		}
		return c
	}
	if vrt.Choice(name+".haspct", 2) == 1 {
		// percentage and surcharge values are drawn from covering sets (equal and different pairs both occur), which
		// keeps every query linear: quick {21.0 %, 10.0 %} / {5.2 %, 1.4 %}, thorough {21.0, 10.0, 5.5} / {5.2, 1.4}
		var pv, sv int64
		if vrt.Thorough() {
			// thorough: a wider covering set (fully symbolic percentage values make every query a product of two
			// unknowns: that bound left 68 obligations unknown after 30 minutes and is not claimed)
			pv = []int64{210, 100, 55}[vrt.Choice(name+".pctv", 3)]
			sv = 52
			if rich && vrt.Choice(name+".surv", 2) == 1 {
				sv = 14
			}
		} else {
			pv, sv = 210, 52
			if !rich || vrt.Choice(name+".pctv", 2) == 1 {
				pv = 100
			}
			if rich && vrt.Choice(name+".surv", 2) == 1 {
				sv = 14
			}
		}
		p := num.MakePercentage(pv, 3)
		c.Percent = &p
		if vrt.Choice(name+".hassur", 2) == 1 {
			s := num.MakePercentage(sv, 3)
			c.Surcharge = &s
		}
	}
	if !rich {
		// category B is a retained category (flag normally set from the regime table)
		c.retained = true
	}
	if rich {
		switch vrt.Choice(name+".ext", 3) {
		case 1:
			c.Ext = Extensions{"k": "v1"}
		case 2:
			c.Ext = Extensions{"k": "v2"}
		}
		if vrt.Choice(name+".country", 2) == 1 {
			c.Country = "XX"
		}
	}
	return c
}

// c02Same: the documented distinction between rate groups: country, percentage, surcharge, extensions; exempt rows apart.
func c02Same(a, b *Combo) bool {
	if a.Category != b.Category || a.Country != b.Country || !a.Ext.Equals(b.Ext) {
		return false
	}
	if (a.Percent == nil) != (b.Percent == nil) || (a.Surcharge == nil) != (b.Surcharge == nil) {
		return false
	}
	res := true
	if a.Percent != nil {
		res = vrt.And(res, a.Percent.Value() == b.Percent.Value())
	}
	if a.Surcharge != nil {
		res = vrt.And(res, a.Surcharge.Value() == b.Surcharge.Value())
	}
	return res
}

// c02Matches: the result row rt belongs to combo c's group (same predicate, on the presented row).
func c02Matches(rt *RateTotal, c *Combo) bool {
	if rt.Country != c.Country || !rt.Ext.Equals(c.Ext) {
		return false
	}
	if (rt.Percent == nil) != (c.Percent == nil) || (rt.Surcharge == nil) != (c.Surcharge == nil) {
		return false
	}
	res := true
	if c.Percent != nil {
		res = vrt.And(res, rt.Percent.Value() == c.Percent.Value())
	}
	if c.Surcharge != nil {
		res = vrt.And(res, rt.Surcharge.Percent.Value() == c.Surcharge.Value())
	}
	return res
}

type c02Contribution struct {
	c     *Combo
	total num.Amount // tax-exclusive contribution at the working precision
}

// H_C02_Partition: explicit percentages, no regime.
func H_C02_Partition() {
	cur := currency.Code("EUR")
	if vrt.Thorough() {
		switch vrt.Choice("cur", 3) {
		case 1:
			cur = "JPY"
		case 2:
			cur = "BHD"
		}
	}
	zero := cur.Def().Zero()
	rr := RoundingRulePrecise
	if vrt.Choice("rr", 2) == 1 {
		rr = RoundingRuleCurrency
	}
	nl := 2
	if vrt.Thorough() {
		nl = 2 + vrt.Choice("nl", 2)
	}
	includes := cbc.Code("")
	if vrt.Choice("includes", 2) == 1 {
		includes = "A"
	}
	var lines []TaxableLine
	var contribs []c02Contribution
	for k := 0; k < nl; k++ {
		name := "l" + string(rune('0'+k))
		texp := zero.Exp() + 2 // quick: first line at currency+2 decimals, the others at currency precision
		if k > 0 {
			texp = zero.Exp()
		}
		total := num.MakeAmount(vrt.Int64In(name+".total", -c02Dom, c02Dom), texp)
		l := &c02Line{total: total}
		var ca *Combo
		if k < 2 {
			ca = c02Combo(name+".a", "A", true)
		} else {
			// a third line (thorough tier): a plain 10 % row with or without surcharge, which either joins an
			// existing group or forms a new one
			p := num.MakePercentage(100, 3)
			ca = &Combo{Category: "A", Percent: &p}
			if vrt.Choice(name+".a.hassur", 2) == 1 {
				s := num.MakePercentage(14, 3)
				ca.Surcharge = &s
			}
		}
		l.taxes = append(l.taxes, ca)
		var cb *Combo
		if k == 1 && vrt.Choice(name+".second", 2) == 1 {
			cb = c02Combo(name+".b", "B", false)
			l.taxes = append(l.taxes, cb)
		}
		lines = append(lines, l)
		// reference contribution: working precision >= currency + 2; included tax A taken out with A's own percentage
		w := total.RescaleUp(zero.Exp() + 2)
		if includes == "A" && ca.Percent != nil {
			w = w.Remove(*ca.Percent)
		}
		contribs = append(contribs, c02Contribution{ca, w})
		if cb != nil {
			contribs = append(contribs, c02Contribution{cb, w})
		}
	}
	tc := &TotalCalculator{Currency: cur, Rounding: rr, Date: cal.MakeDate(2024, 1, 1), Lines: lines, Includes: includes}
	t := new(Total)
	err := tc.Calculate(t)
	vrt.Assert(err == nil, "calculates")
	if err != nil {
		return
	}
	c02CheckSummary(t, contribs, zero, rr, map[cbc.Code]bool{"B": true})
}

// c02CheckSummary compares the presented summary with the reference built from the contributions:
// every contribution sits in exactly one row of its category; each row's base is the sum of its
// contributions, its amount (and surcharge) the percentage of that base; a category is the sum of its
// rows; the tax sum adds ordinary categories and subtracts retained ones, surcharges included; rounding
// happens at the working precision (precise rule: only for presentation; currency rule: at every step).
func c02CheckSummary(t *Total, contribs []c02Contribution, zero num.Amount, rr cbc.Key, retained map[cbc.Code]bool) {
	currencyRule := rr == RoundingRuleCurrency
	cur := zero.Exp()
	cats := map[cbc.Code]bool{}
	for _, x := range contribs {
		cats[x.c.Category] = true
		ct := t.Category(x.c.Category)
		vrt.Assert(ct != nil, "category-present")
		if ct == nil {
			return
		}
		vrt.Assert(ct.Retained == retained[x.c.Category], "category-retained-flag")
		count := int64(0)
		for _, rt := range ct.Rates {
			count += vrt.IteInt64(c02Matches(rt, x.c), 1, 0)
		}
		vrt.Assert(count == 1, "contribution-in-exactly-one-group")
	}
	vrt.Assert(len(t.Categories) == len(cats), "no-extra-categories")
	work := zero.RescaleUp(cur + 2)
	sumW := zero
	if !currencyRule {
		sumW = work
	}
	for _, ct := range t.Categories {
		catW, surW := zero, zero
		hasSur := false
		for _, rt := range ct.Rates {
			vrt.Assert(vrt.And(rt.Base.Exp() == cur, rt.Amount.Exp() == cur), "rows-at-currency-precision")
			// the row's unrounded base: sum of the contributions that belong to it
			wb := zero
			if !currencyRule {
				wb = work
			}
			for _, y := range contribs {
				if y.c.Category != ct.Code {
					continue
				}
				m := c02Matches(rt, y.c)
				yt := y.total
				if currencyRule {
					yt = yt.Rescale(cur)
				} else {
					wb = wb.MatchPrecision(yt)
					yt = yt.Rescale(wb.Exp())
				}
				wb = num.MakeAmount(wb.Value()+vrt.IteInt64(m, yt.Value(), 0), wb.Exp())
			}
			vrt.Assert(rt.Base.Value() == wb.Rescale(cur).Value(), "group-base-is-sum-of-its-contributions")
			if rt.Percent == nil {
				vrt.Assert(rt.Amount.IsZero(), "exempt-group-has-no-amount")
				continue
			}
			aw := rt.Percent.Of(wb)
			vrt.Assert(rt.Amount.Value() == aw.Rescale(cur).Value(), "group-amount-is-percentage-of-base")
			if !currencyRule {
				catW = catW.MatchPrecision(aw)
			}
			catW = catW.Add(aw)
			if rt.Surcharge != nil {
				sw := rt.Surcharge.Percent.Of(wb)
				vrt.Assert(rt.Surcharge.Amount.Value() == sw.Rescale(cur).Value(), "group-surcharge-is-percentage-of-base")
				if !currencyRule {
					surW = surW.MatchPrecision(sw)
				}
				surW = surW.Add(sw)
				hasSur = true
			}
		}
		vrt.Assert(vrt.And(ct.Amount.Value() == catW.Rescale(cur).Value(), ct.Amount.Exp() == cur), "category-amount-is-sum-of-groups")
		vrt.Assert((ct.Surcharge != nil) == hasSur, "category-surcharge-presence")
		if ct.Surcharge != nil && hasSur {
			vrt.Assert(ct.Surcharge.Value() == surW.Rescale(cur).Value(), "category-surcharge-is-sum-of-groups")
		}
		if !currencyRule {
			sumW = sumW.MatchPrecision(catW)
		}
		if ct.Retained {
			sumW = sumW.Subtract(catW)
			if hasSur {
				sumW = sumW.Subtract(surW)
			}
		} else {
			sumW = sumW.Add(catW)
			if hasSur {
				sumW = sumW.Add(surW)
			}
		}
	}
	vrt.Assert(vrt.And(t.Sum.Value() == sumW.Rescale(cur).Value(), t.Sum.Exp() == cur), "tax-sum-adds-ordinary-subtracts-retained-with-surcharges")
}

// H_C02_Regime: Spanish tables (imported natively): keyed rates incl. surcharge keys, exempt key, retained IRPF.
func H_C02_Regime() {
	cur := currency.Code("EUR")
	zero := cur.Def().Zero()
	rr := RoundingRulePrecise
	if vrt.Choice("rr", 2) == 1 {
		rr = RoundingRuleCurrency
	}
	keys := []cbc.Key{"standard", "reduced", "standard+eqs", "exempt", "zero"}
	var lines []TaxableLine
	var combos []*Combo
	var totals []num.Amount
	for k := 0; k < 2; k++ {
		name := "l" + string(rune('0'+k))
		total := num.MakeAmount(vrt.Int64In(name+".total", -c02Dom, c02Dom), 2)
		c := &Combo{Category: "VAT", Rate: keys[vrt.Choice(name+".key", len(keys))]}
		l := &c02Line{total: total, taxes: Set{c}}
		if vrt.Choice(name+".irpf", 2) == 1 {
			l.taxes = append(l.taxes, &Combo{Category: "IRPF", Rate: "pro"})
		}
		lines = append(lines, l)
		combos = append(combos, c)
		totals = append(totals, total)
	}
	tc := &TotalCalculator{Country: l10n.TaxCountryCode("ES"), Currency: cur, Rounding: rr, Date: cal.MakeDate(2024, 1, 1), Lines: lines}
	t := new(Total)
	err := tc.Calculate(t)
	vrt.Assert(err == nil, "regime-calculates")
	if err != nil {
		return
	}
	var contribs []c02Contribution
	for k, l := range lines {
		for _, c := range l.GetTaxes() {
			contribs = append(contribs, c02Contribution{c, totals[k].RescaleUp(zero.Exp() + 2)})
		}
	}
	for _, c := range combos {
		switch c.Rate {
		case "exempt":
			vrt.Assert(c.Percent == nil, "exempt-key-no-percent")
		case "standard+eqs":
			vrt.Assert(c.Percent != nil && c.Surcharge != nil, "surcharge-key-sets-both")
		default:
			vrt.Assert(c.Percent != nil && c.Surcharge == nil, "plain-key-sets-percent-only")
		}
	}
	c02CheckSummary(t, contribs, zero, rr, map[cbc.Code]bool{"IRPF": true})
	// retained subtraction including surcharges, on the presented figures under the currency rule
	_ = rr
}
