//go:build verif

package tax

import (
	"encoding/json"

	"github.com/invopop/gobl/internal/vrt"
)

// C14 (hand-written JSON readers): Combo.UnmarshalJSON - the legacy "tags" to "rate" migration - on every member
// combination of a small grammar of combo objects: no panic, and the rate is the first legacy tag exactly when no
// rate was given. (encoding/json's reflective decoding of concrete text is modelled in the engine; the type's own
// UnmarshalJSON and those of its members run as real code.)
func H_C14V_ComboJSON() {
	text := `{"cat":"VAT"`
	rate := vrt.Choice("rate", 2) == 1
	if rate {
		text += `,"rate":"standard"`
	}
	tags := vrt.Choice("tags", 5)
	switch tags {
	case 1:
		text += `,"tags":null`
	case 2:
		text += `,"tags":[]`
	case 3:
		text += `,"tags":["reduced"]`
	case 4:
		text += `,"tags":["reduced","other"]`
	}
	if vrt.Choice("percent", 2) == 1 {
		text += `,"percent":"21.0%"`
	}
	text += `}`
	var c Combo
	err := json.Unmarshal([]byte(text), &c)
	vrt.Assert(err == nil, "combo-object-is-read")
	if err != nil {
		return
	}
	vrt.Assert(c.Category == "VAT", "category-read")
	switch {
	case rate:
		vrt.Assert(c.Rate == "standard", "given-rate-kept")
	case tags >= 3:
		vrt.Assert(c.Rate == "reduced", "first-legacy-tag-becomes-the-rate")
	default:
		vrt.Assert(c.Rate == "", "no-rate-without-tags")
	}
}
