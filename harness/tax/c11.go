//go:build verif

package tax

import (
	"context"

	"github.com/invopop/gobl/cbc"
	"github.com/invopop/gobl/internal/vrt"
)

// C11 (leaf level, one wiring): the leaf rule must also be reached where the leaf sits inside a larger object.
// H_C11_ComboCategoryCode: whatever regime applies (or none), a combo's category is accepted only if it is a
// well-formed code (published cbc/code pattern); every ASCII string of 1..3 bytes.
func H_C11_ComboCategoryCode() {
	vrt.Unwind(5000)
	n := 1 + vrt.Choice("n", 3)
	s := vrt.ASCIIString("cat", n)
	c := &Combo{Category: cbc.Code(s)}
	ctx := context.Background()
	if vrt.Choice("doc-regime", 2) == 1 {
		ctx = RegimeDefFor("ES").WithContext(ctx)
	}
	err := c.ValidateWithContext(ctx)
	vrt.Assert(err != nil || vrt.MatchesPattern(s, vrt.SchemaValue("cbc/code.json", "pattern")), "accepted-category-is-a-well-formed-code")
}
