//go:build verif

package tax

import (
	"github.com/invopop/gobl/cbc"
	"github.com/invopop/gobl/internal/vrt"
	"github.com/invopop/gobl/num"
)

// C20 — tax summaries combine component-wise.

const c20Dom = int64(1) << 40

func c20Amt(name string) num.Amount { return num.MakeAmount(vrt.Int64In(name, -c20Dom, c20Dom), 2) }

var (
	c20P21 = num.MakePercentage(210, 3)
	c20P10 = num.MakePercentage(100, 3)
	c20S52 = num.MakePercentage(52, 3)
	c20S14 = num.MakePercentage(14, 3)
)

// c20Group builds one rate group; kind: 0 = 21 %, 1 = 10 % + 5.2 % surcharge, 2 = 10 % without surcharge,
// 3 = exempt (no percent), 4 = 21 % with extension, 5 = 10 % + 1.4 % surcharge.
func c20Group(name string, kind int) *RateTotal {
	rt := &RateTotal{Base: c20Amt(name + ".base"), Amount: c20Amt(name + ".amount")}
	switch kind {
	case 0:
		p := c20P21
		rt.Percent = &p
	case 1:
		p := c20P10
		rt.Percent = &p
		rt.Surcharge = &RateTotalSurcharge{Percent: c20S52, Amount: c20Amt(name + ".sur")}
	case 2:
		p := c20P10
		rt.Percent = &p
	case 3:
		rt.Key = "exempt"
	case 4:
		p := c20P21
		rt.Percent = &p
		rt.Ext = Extensions{"es-tbai-product": "services"}
	case 5:
		p := c20P10
		rt.Percent = &p
		rt.Surcharge = &RateTotalSurcharge{Percent: c20S14, Amount: c20Amt(name + ".sur")}
	}
	return rt
}

// c20Total: category VAT with two groups (kinds chosen), optional category surcharge, optional retained category IRPF.
func c20Total(name string, kinds int) *Total {
	t := &Total{Sum: c20Amt(name + ".sum"), sum: c20Amt(name + ".psum")}
	vat := &CategoryTotal{Code: "VAT", Amount: c20Amt(name + ".vat.amount"), amount: c20Amt(name + ".vat.pamount")}
	k0 := vrt.Choice(name+".k0", kinds)
	vat.Rates = append(vat.Rates, c20Group(name+".g0", k0))
	if vrt.Choice(name+".two", 2) == 1 {
		// a calculated summary never holds two groups with the same key: the second kind differs from the first
		k1 := (k0 + 1 + vrt.Choice(name+".k1", kinds-1)) % kinds
		vat.Rates = append(vat.Rates, c20Group(name+".g1", k1))
	}
	if vrt.Choice(name+".catsur", 2) == 1 {
		s := c20Amt(name + ".vat.sur")
		vat.Surcharge = &s
	}
	t.Categories = append(t.Categories, vat)
	if vrt.Choice(name+".irpf", 2) == 1 {
		p := num.MakePercentage(150, 3)
		ir := &CategoryTotal{Code: "IRPF", Retained: true, Amount: c20Amt(name + ".irpf.amount"), amount: c20Amt(name + ".irpf.pamount")}
		ir.Rates = append(ir.Rates, &RateTotal{Base: c20Amt(name + ".irpf.base"), Amount: c20Amt(name + ".irpf.ramount"), Percent: &p})
		t.Categories = append(t.Categories, ir)
	}
	return t
}

func c20Zero() num.Amount { return num.MakeAmount(0, 2) }

// reference look-ups (missing = zero)
func c20CatAmount(t *Total, code cbc.Code) int64 {
	for _, ct := range t.Categories {
		if ct.Code == code {
			return ct.Amount.Value()
		}
	}
	return 0
}

func c20CatSurcharge(t *Total, code cbc.Code) int64 {
	for _, ct := range t.Categories {
		if ct.Code == code && ct.Surcharge != nil {
			return ct.Surcharge.Value()
		}
	}
	return 0
}

// c20SameGroup: the documented distinction — country, percentage, surcharge, extensions, exempt rows apart.
func c20SameGroup(a, b *RateTotal) bool {
	if a.Country != b.Country || !a.Ext.Equals(b.Ext) {
		return false
	}
	if (a.Percent == nil) != (b.Percent == nil) {
		return false
	}
	if a.Percent != nil && a.Percent.Value() != b.Percent.Value() {
		return false
	}
	if (a.Surcharge == nil) != (b.Surcharge == nil) {
		return false
	}
	if a.Surcharge != nil && a.Surcharge.Percent.Value() != b.Surcharge.Percent.Value() {
		return false
	}
	return true
}

// c20GroupSums: (base, amount, surcharge amount) summed over the groups of category code in t that are in g's group.
func c20GroupSums(t *Total, code cbc.Code, g *RateTotal) (base, amount, sur int64) {
	for _, ct := range t.Categories {
		if ct.Code != code {
			continue
		}
		for _, rt := range ct.Rates {
			if c20SameGroup(rt, g) {
				base += rt.Base.Value()
				amount += rt.Amount.Value()
				if rt.Surcharge != nil {
					sur += rt.Surcharge.Amount.Value()
				}
			}
		}
	}
	return
}

func c20CheckMerge(m, a, b *Total, tag string) {
	vrt.Assert(m.Sum.Value() == a.Sum.Value()+b.Sum.Value(), tag+"-sum")
	vrt.Assert(m.sum.Value() == a.sum.Value()+b.sum.Value(), tag+"-precise-sum")
	for _, src := range []*Total{a, b} {
		for _, ct := range src.Categories {
			vrt.Assert(c20CatAmount(m, ct.Code) == c20CatAmount(a, ct.Code)+c20CatAmount(b, ct.Code), tag+"-category-amount")
			vrt.Known("C20-merge-category-surcharge-one-sided", (c20HasCatSurcharge(a, ct.Code) != c20HasCatSurcharge(b, ct.Code)) && c20HasCat(a, ct.Code) && c20HasCat(b, ct.Code))
			vrt.Assert(c20CatSurcharge(m, ct.Code) == c20CatSurcharge(a, ct.Code)+c20CatSurcharge(b, ct.Code), tag+"-category-surcharge")
			for _, rt := range ct.Rates {
				mb, ma, ms := c20GroupSums(m, ct.Code, rt)
				ab, aa, as := c20GroupSums(a, ct.Code, rt)
				bb, ba, bs := c20GroupSums(b, ct.Code, rt)
				vrt.Assert(mb == ab+bb, tag+"-group-base")
				vrt.Assert(ma == aa+ba, tag+"-group-amount")
				vrt.Assert(ms == as+bs, tag+"-group-surcharge")
			}
		}
	}
}

func c20HasCat(t *Total, code cbc.Code) bool {
	for _, ct := range t.Categories {
		if ct.Code == code {
			return true
		}
	}
	return false
}

func c20HasCatSurcharge(t *Total, code cbc.Code) bool {
	for _, ct := range t.Categories {
		if ct.Code == code && ct.Surcharge != nil {
			return true
		}
	}
	return false
}

// H_C20_Merge: component-wise sums, both operand orders, operands untouched.
func H_C20_Merge() {
	a := c20Total("a", 6)
	b := c20Total("b", 6)
	vrt.Freeze(a, "merge operand a")
	vrt.Freeze(b, "merge operand b")
	m := a.Merge(b)
	c20CheckMerge(m, a, b, "merge")
	m2 := b.Merge(a)
	c20CheckMerge(m2, a, b, "merge-swapped")
}

// H_C20_Negate: every amount flips including surcharges; merged with its negation a summary is zero everywhere.
func H_C20_Negate() {
	a := c20Total("a", 6)
	vrt.Freeze(a, "negate operand")
	n := a.Negate()
	vrt.Assert(n.Sum.Value() == -a.Sum.Value(), "negate-sum")
	vrt.Assert(n.sum.Value() == -a.sum.Value(), "negate-precise-sum")
	for i, ct := range a.Categories {
		nc := n.Categories[i]
		vrt.Assert(nc.Amount.Value() == -ct.Amount.Value(), "negate-category-amount")
		vrt.Assert(nc.amount.Value() == -ct.amount.Value(), "negate-category-precise-amount")
		if ct.Surcharge != nil {
			vrt.Known("C20-negate-surcharges", true)
			vrt.Assert(nc.Surcharge != nil && nc.Surcharge.Value() == -ct.Surcharge.Value(), "negate-category-surcharge")
		}
		for j, rt := range ct.Rates {
			nr := nc.Rates[j]
			vrt.Assert(nr.Base.Value() == -rt.Base.Value(), "negate-group-base")
			vrt.Assert(nr.Amount.Value() == -rt.Amount.Value(), "negate-group-amount")
			if rt.Surcharge != nil {
				vrt.Known("C20-negate-surcharges", true)
				vrt.Assert(nr.Surcharge != nil && nr.Surcharge.Amount.Value() == -rt.Surcharge.Amount.Value(), "negate-group-surcharge")
			}
		}
	}
	z := a.Merge(n)
	vrt.Assert(z.Sum.IsZero(), "merge-negation-sum-zero")
	for _, ct := range z.Categories {
		vrt.Assert(ct.Amount.IsZero(), "merge-negation-category-zero")
		if ct.Surcharge != nil {
			vrt.Known("C20-negate-surcharges", true)
			vrt.Assert(ct.Surcharge.IsZero(), "merge-negation-category-surcharge-zero")
		}
		for _, rt := range ct.Rates {
			vrt.Assert(vrt.And(rt.Base.IsZero(), rt.Amount.IsZero()), "merge-negation-group-zero")
			if rt.Surcharge != nil {
				vrt.Known("C20-negate-surcharges", true)
				vrt.Assert(rt.Surcharge.Amount.IsZero(), "merge-negation-group-surcharge-zero")
			}
		}
	}
}

// H_C20_NoAliasing: presentation rounding of a clone / merge result never writes into an operand.
func H_C20_NoAliasing() {
	a := c20Total("a", 3)
	b := c20Total("b", 3)
	vrt.Freeze(a, "operand a (aliasing)")
	vrt.Freeze(b, "operand b (aliasing)")
	as, bs := c20CatSurcharge(a, "VAT"), c20CatSurcharge(b, "VAT")
	ab, _, asur := c20GroupSums(a, "VAT", a.Categories[0].Rates[0])
	bb, _, bsur := c20GroupSums(b, "VAT", b.Categories[0].Rates[0])
	which := vrt.Choice("op", 3)
	var r *Total
	switch which {
	case 0:
		r = a.Clone()
	case 1:
		r = a.Merge(b)
	default:
		r = a.Negate()
	}
	r.round(c20Zero())
	for _, ct := range r.Categories {
		ct.Amount = ct.Amount.Add(num.MakeAmount(1, 2))
		if ct.Surcharge != nil {
			*ct.Surcharge = ct.Surcharge.Add(num.MakeAmount(1, 2))
		}
		for _, rt := range ct.Rates {
			rt.Base = rt.Base.Add(num.MakeAmount(1, 2))
			if rt.Surcharge != nil {
				rt.Surcharge.Amount = rt.Surcharge.Amount.Add(num.MakeAmount(1, 2))
			}
		}
	}
	vrt.Assert(vrt.And(c20CatSurcharge(a, "VAT") == as, c20CatSurcharge(b, "VAT") == bs), "operands-keep-category-surcharge")
	ab2, _, asur2 := c20GroupSums(a, "VAT", a.Categories[0].Rates[0])
	bb2, _, bsur2 := c20GroupSums(b, "VAT", b.Categories[0].Rates[0])
	vrt.Assert(vrt.And(vrt.And(ab == ab2, asur == asur2), vrt.And(bb == bb2, bsur == bsur2)), "operands-keep-group-figures")
}
