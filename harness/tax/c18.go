//go:build verif

package tax

import (
	"context"

	"github.com/invopop/gobl/cbc"
	"github.com/invopop/gobl/internal/vrt"
	"github.com/invopop/gobl/l10n"
)

// C18 (leaf rules): what the extension rule accepts is what the published definition files allow.

func c18Defs() []*cbc.Definition {
	var out []*cbc.Definition
	seen := map[cbc.Key]bool{}
	add := func(list []*cbc.Definition) {
		for _, d := range list {
			if !seen[d.Key] {
				seen[d.Key] = true
				out = append(out, d)
			}
		}
	}
	for _, a := range AllAddonDefs() {
		add(a.Extensions)
	}
	for _, r := range AllRegimeDefs() {
		add(r.Extensions)
	}
	// deterministic order whatever the registration order
	for a := 1; a < len(out); a++ {
		for b := a; b > 0 && out[b].Key < out[b-1].Key; b-- {
			out[b], out[b-1] = out[b-1], out[b]
		}
	}
	return out
}

// H_C18_ExtensionValues: for every registered extension key and every ASCII candidate value of 1..3 bytes:
// accepted by Extensions.Validate only if the published definition lists the code or its pattern matches.
func H_C18_ExtensionValues() {
	vrt.Unwind(5000)
	defs := c18Defs()
	maxVals := 40
	if vrt.Thorough() {
		maxVals = 300
	}
	d := defs[vrt.Choice("def", len(defs))]
	if len(d.Values) > maxVals {
		return
	}
	values, pattern, found := vrt.PublishedExtension(string(d.Key))
	vrt.Assert(found, "registered-extension-key-is-published")
	if !found {
		return
	}
	n := 1 + vrt.Choice("n", 3)
	s := vrt.ASCIIString("v", n)
	err := Extensions{d.Key: cbc.Code(s)}.Validate()
	if err != nil {
		return
	}
	allowed := false
	for _, v := range values {
		if len(v) == n {
			allowed = vrt.Or(allowed, s == v)
		}
	}
	if pattern != "" {
		m := vrt.MatchesPattern(s, pattern)
		if len(values) > 0 {
			allowed = vrt.And(allowed, m)
		} else {
			allowed = m
		}
	}
	if len(values) == 0 && pattern == "" {
		allowed = true // free-form extension
	}
	vrt.Assert(allowed, "accepted-extension-value-is-published")
}

// H_C18_UndefinedKey: a key that no regime, addon or catalogue defines is rejected.
func H_C18_UndefinedKey() {
	err := Extensions{"zz-not-defined-key": "x"}.Validate()
	vrt.Assert(err != nil, "undefined-extension-key-rejected")
}

// H_C18_DerivedKeys: a key derived from a registered extension key - a sub-key appended with '+', a suffix appended
// with '-', the last character removed - is defined (ExtensionForKey) and accepted (Extensions.Validate, with a
// value the base key allows) only if the published definition files define that very key.
func H_C18_DerivedKeys() {
	vrt.Unwind(5000)
	defs := c18Defs()
	d := defs[vrt.Choice("def", len(defs))]
	var k cbc.Key
	switch vrt.Choice("shape", 3) {
	case 0:
		k = cbc.Key(string(d.Key) + "+zz")
	case 1:
		k = cbc.Key(string(d.Key) + "-zz")
	default:
		k = cbc.Key(string(d.Key)[:len(d.Key)-1])
	}
	_, _, found := vrt.PublishedExtension(string(k))
	kd := ExtensionForKey(k)
	vrt.Assert(kd == nil || found, "derived-key-defined-only-if-published")
	val := cbc.Code("x")
	if len(d.Values) > 0 {
		val = d.Values[0].Code
	}
	err := Extensions{k: val}.Validate()
	if !found {
		vrt.Assert(err != nil, "derived-undefined-key-rejected")
	}
}

// H_C18_ComboKeys: category and rate keys of a tax combo are accepted only if the regime that applies - the
// combo's own country when it names one, otherwise the document's - defines them; with no regime, a rate key
// is refused. (Struct validation runs through the engine's model of the validation library's dispatcher.)
func H_C18_ComboKeys() {
	vrt.Unwind(5000)
	ctxRegimes := []l10n.Code{"", "ES", "PT"}
	countries := []l10n.TaxCountryCode{"", "ES", "FR", "JP"} // JP: no regime published
	cats := []cbc.Code{"VAT", "IRPF", "IPSI", "XXX"} // IPSI: a Spanish category that defines no rate keys
	rates := []cbc.Key{"", "standard", "pro", "bogus"}
	cr := ctxRegimes[vrt.Choice("doc-regime", len(ctxRegimes))]
	c := &Combo{
		Country:  countries[vrt.Choice("country", len(countries))],
		Category: cats[vrt.Choice("cat", len(cats))],
		Rate:     rates[vrt.Choice("rate", len(rates))],
	}
	ctx := context.Background()
	var docDef *RegimeDef
	if cr != "" {
		docDef = RegimeDefFor(cr)
		ctx = docDef.WithContext(ctx)
	}
	err := c.ValidateWithContext(ctx)
	// the regime that applies
	eff := docDef
	if c.Country != "" {
		eff = RegimeDefFor(c.Country.Code())
	}
	want := false
	if eff == nil {
		want = c.Rate == ""
	} else if cd := eff.CategoryDef(c.Category); cd != nil {
		want = c.Rate == "" || cd.RateDef(c.Rate) != nil
	}
	vrt.Assert(err != nil || want, "accepted-combo-keys-are-defined-in-the-applicable-regime")
	if cr != "PT" { // the Portuguese regime adds its own requirements (region extension) on top of the key rules
		vrt.Assert(err == nil || !want, "defined-combo-keys-are-accepted")
	}
}
