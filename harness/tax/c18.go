//go:build verif

package tax

import (
	"github.com/invopop/gobl/cbc"
	"github.com/invopop/gobl/internal/vrt"
)

// C18 (leaf rules): what the extension rule accepts is what the published definition files allow.

func c18Defs() []*cbc.Definition {
	var out []*cbc.Definition
	seen := map[cbc.Key]bool{}
	add := func(list []*cbc.Definition) {
		for _, d := range list {
			if !seen[d.Key] {
				seen[d.Key] = true
				out = append(out, d)
			}
		}
	}
	for _, a := range AllAddonDefs() {
		add(a.Extensions)
	}
	for _, r := range AllRegimeDefs() {
		add(r.Extensions)
	}
	// deterministic order whatever the registration order
	for a := 1; a < len(out); a++ {
		for b := a; b > 0 && out[b].Key < out[b-1].Key; b-- {
			out[b], out[b-1] = out[b-1], out[b]
		}
	}
	return out
}

// H_C18_ExtensionValues: for every registered extension key and every ASCII candidate value of 1..3 bytes:
// accepted by Extensions.Validate only if the published definition lists the code or its pattern matches.
func H_C18_ExtensionValues() {
	vrt.Unwind(5000)
	defs := c18Defs()
	maxVals := 40
	if vrt.Thorough() {
		maxVals = 300
	}
	d := defs[vrt.Choice("def", len(defs))]
	if len(d.Values) > maxVals {
		return
	}
	values, pattern, found := vrt.PublishedExtension(string(d.Key))
	vrt.Assert(found, "registered-extension-key-is-published")
	if !found {
		return
	}
	n := 1 + vrt.Choice("n", 3)
	s := vrt.ASCIIString("v", n)
	err := Extensions{d.Key: cbc.Code(s)}.Validate()
	if err != nil {
		return
	}
	allowed := false
	for _, v := range values {
		if len(v) == n {
			allowed = vrt.Or(allowed, s == v)
		}
	}
	if pattern != "" {
		m := vrt.MatchesPattern(s, pattern)
		if len(values) > 0 {
			allowed = vrt.And(allowed, m)
		} else {
			allowed = m
		}
	}
	if len(values) == 0 && pattern == "" {
		allowed = true // free-form extension
	}
	vrt.Assert(allowed, "accepted-extension-value-is-published")
}

// H_C18_UndefinedKey: a key that no regime, addon or catalogue defines is rejected.
func H_C18_UndefinedKey() {
	err := Extensions{"zz-not-defined-key": "x"}.Validate()
	vrt.Assert(err != nil, "undefined-extension-key-rejected")
}
