//go:build verif

package tax

import (
	"strings"

	"github.com/invopop/gobl/cbc"
	"github.com/invopop/gobl/internal/vrt"
)

// C13 (normalisation): tax.NormalizeIdentity - the normaliser every regime builds on - is idempotent, insensitive to
// separators, letter case and a leading country prefix, and never alters the digits of a code; for every ASCII
// string within the bound.

func c13Norm(country string, code string) string {
	id := &Identity{Country: "FR", Code: cbc.Code(code)}
	_ = country
	NormalizeIdentity(id)
	return string(id.Code)
}

func c13Digits(s string) string {
	var out []byte
	for i := 0; i < len(s); i++ {
		if s[i] >= '0' && s[i] <= '9' {
			out = append(out, s[i])
		}
	}
	return string(out)
}

func H_C13_NormalizeGeneric() {
	max := 4
	if vrt.Thorough() {
		max = 6
	}
	n := 1 + vrt.Choice("n", max)
	s := vrt.ASCIIString("s", n)
	r1 := c13Norm("FR", s)
	vrt.Assert(c13Norm("FR", r1) == r1, "normalisation-is-idempotent")
	vrt.Assert(vrt.MatchesPattern(r1, `^[A-Z0-9]*$`), "normalised-code-has-only-capitals-and-digits")
	vrt.Assert(c13Digits(r1) == c13Digits(s), "digits-are-kept-in-order")
	// a separator inserted anywhere changes nothing
	pos := vrt.Choice("pos", n+1)
	sep := []string{" ", ".", "-", "/"}[vrt.Choice("sep", 4)]
	vrt.Assert(c13Norm("FR", s[:pos]+sep+s[pos:]) == r1, "insensitive-to-separators")
	// letter case changes nothing
	vrt.Assert(c13Norm("FR", strings.ToLower(s)) == r1, "insensitive-to-letter-case")
	// a leading country prefix changes nothing (unless what follows starts with the prefix again)
	if !(len(r1) >= 2 && r1[:2] == "FR") {
		vrt.Assert(c13Norm("FR", "FR"+s) == r1, "insensitive-to-a-leading-country-prefix")
	}
}
