//go:build verif

package gobl

import (
	"github.com/invopop/gobl/bill"
	"github.com/invopop/gobl/cal"
	"github.com/invopop/gobl/cbc"
	"github.com/invopop/gobl/dsig"
	"github.com/invopop/gobl/head"
	"github.com/invopop/gobl/internal/vrt"
	"github.com/invopop/gobl/num"
	"github.com/invopop/gobl/org"
	"github.com/invopop/gobl/schema"
	"github.com/invopop/gobl/tax"
)

// C16 (envelope level): correcting or replicating an envelope writes nothing into the source envelope, its
// header, its signatures or its document (all frozen), and yields a new, unsigned envelope with a new
// identifier, no stamps, a digest, and a document that has no code and (for a correction) points back at the
// source. Symbolically the final recalculation and the JSON round trip of Clone are stubs (success / ideal deep
// copy); natively everything is real.

func c16SourceEnvelope(code cbc.Code, stamped, signed bool) (*Envelope, *bill.Invoice) {
	price := num.MakeAmount(1000, 2)
	inv := &bill.Invoice{Regime: tax.WithRegime("ES"), Type: bill.InvoiceTypeStandard, Series: "A", Code: code, Currency: "EUR", IssueDate: cal.MakeDate(2024, 1, 1),
		Supplier: &org.Party{Name: "S", TaxID: &tax.Identity{Country: "ES", Code: "B98602642"}},
		Customer: &org.Party{Name: "C", TaxID: &tax.Identity{Country: "ES", Code: "54387763P"}},
		Lines:    []*bill.Line{{Quantity: num.MakeAmount(1, 0), Item: &org.Item{Name: "x", Price: &price}, Taxes: tax.Set{{Category: "VAT", Rate: "standard"}}}},
	}
	inv.UUID = "0190c2a6-7c2a-7000-8000-000000000005"
	var env *Envelope
	if vrt.Symbolic() {
		doc, err := schema.NewObject(inv)
		if err != nil {
			panic(err)
		}
		vrt.BindContent(doc, 1)
		env = &Envelope{Schema: EnvelopeSchema, Head: &head.Header{UUID: "0190c2a6-7c2a-7000-8000-000000000001", Digest: &dsig.Digest{Algorithm: "sha256", Value: vrt.DigestOf(1)}}, Document: doc}
	} else {
		var err error
		env, err = Envelop(inv)
		if err != nil {
			panic(err)
		}
	}
	if stamped {
		env.Head.Stamps = []*head.Stamp{{Provider: "prov", Value: c09Str("stamp")}}
	}
	if signed {
		env.Signatures = append(env.Signatures, c09Sign(env.Head, 0))
	}
	return env, inv
}

func H_C16_Envelope() {
	code := cbc.Code("")
	if vrt.Choice("has-code", 2) == 1 {
		code = cbc.Code("F" + c09Str("code"))
	}
	stamped := vrt.Choice("stamped", 2) == 1
	signed := vrt.Choice("signed", 2) == 1
	env, src := c16SourceEnvelope(code, stamped, signed)
	if vrt.Symbolic() {
		vrt.SetStub("invoice.Calculate", true)
		vrt.SetStub("object.Clone", true)
	}
	srcUUID, srcHeadUUID := src.UUID, env.Head.UUID
	vrt.Freeze(env, "source envelope")
	replicate := vrt.Choice("replicate", 2) == 1
	var ne *Envelope
	var err error
	if replicate {
		ne, err = env.Replicate()
		vrt.Assert(err == nil, "replicates")
	} else {
		var opts []schema.Option
		withType := vrt.Choice("with-type", 2) == 1
		if withType {
			opts = append(opts, bill.Credit)
		}
		opts = append(opts, bill.WithReason("r"))
		if vrt.Choice("explicit-stamp", 2) == 1 {
			opts = append(opts, bill.WithStamps([]*head.Stamp{{Provider: "prov", Value: "other"}}))
		}
		ne, err = env.Correct(opts...)
		vrt.Assert((err == nil) == (withType && code != ""), "corrected-iff-code-and-type")
	}
	if err != nil {
		vrt.Assert(ne == nil, "no-envelope-on-refusal")
		return
	}
	vrt.Assert(ne != nil && ne != env && ne.Head != nil && ne.Head != env.Head && ne.Document != nil && ne.Document != env.Document, "a-new-envelope-header-and-document")
	if ne == nil || ne.Head == nil || ne.Document == nil {
		return
	}
	vrt.Assert(len(ne.Signatures) == 0, "result-is-unsigned")
	vrt.Assert(len(ne.Head.Stamps) == 0, "result-header-has-no-stamps")
	vrt.Assert(!ne.Head.UUID.IsZero() && ne.Head.UUID != srcHeadUUID, "result-has-a-new-envelope-identifier")
	vrt.Assert(ne.Head.Digest != nil, "result-is-calculated")
	ninv, ok := ne.Extract().(*bill.Invoice)
	vrt.Assert(ok && ninv != nil && ninv != src, "result-document-is-a-new-invoice")
	if !ok || ninv == nil {
		return
	}
	vrt.Assert(ninv.Code == "", "result-document-has-no-code")
	vrt.Assert(ninv.UUID != srcUUID, "result-document-has-another-identifier")
	if replicate {
		vrt.Assert(len(ninv.Preceding) == 0, "replica-has-no-preceding-reference")
		return
	}
	vrt.Assert(ninv.Type == bill.InvoiceTypeCreditNote, "correction-has-the-requested-type")
	vrt.Assert(len(ninv.Preceding) == 1 && ninv.Preceding[0].UUID == srcUUID && ninv.Preceding[0].Code == code && ninv.Preceding[0].Series == "A", "correction-points-back-at-the-source")
	vrt.Assert(src.Code == code && src.UUID == srcUUID && len(src.Preceding) == 0 && src.Type == bill.InvoiceTypeStandard, "source-document-as-before")
}
