//go:build verif

package cal

import (
	"time"

	"cloud.google.com/go/civil"

	"github.com/invopop/gobl/internal/vrt"
)

func monthOf(m int) time.Month { return time.Month(m) }

// C11 (leaf level): a date (date-time) the Go side accepts is written as text the published schema accepts:
// format "date" is RFC 3339 full-date (four-digit year, two-digit month and day); the date-time pattern is read
// from the published file.
func H_C11_Date() {
	vrt.Assert(vrt.SchemaValue("cal/date.json", "format") == "date", "date-schema-published")
	d := Date{civil.Date{Year: vrt.IntIn("year", -20000, 20000), Month: monthOf(vrt.IntIn("month", -1, 14)), Day: vrt.IntIn("day", -1, 33)}}
	if d.IsZero() || d.Validate() != nil {
		return
	}
	vrt.Reach("accepted-date")
	vrt.Known("C11-date-year-outside-four-digits", d.Year < 0 || d.Year > 9999)
	vrt.Assert(vrt.MatchesPattern(d.String(), `^[0-9]{4}-[0-9]{2}-[0-9]{2}$`), "accepted-date-is-written-as-rfc3339-full-date")
}

func H_C11_DateTime() {
	pat := vrt.SchemaValue("cal/date-time.json", "pattern")
	vrt.Assert(pat != "", "date-time-schema-published")
	dt := DateTime{civil.DateTime{
		Date: civil.Date{Year: vrt.IntIn("year", -20000, 20000), Month: monthOf(vrt.IntIn("month", 0, 13)), Day: vrt.IntIn("day", 0, 32)},
		Time: civil.Time{Hour: vrt.IntIn("hour", -1, 25), Minute: vrt.IntIn("minute", -1, 61), Second: vrt.IntIn("second", -1, 61), Nanosecond: vrt.IntIn("nanosecond", -1, 1000000000)},
	}}
	if dt.IsZero() || dt.Validate() != nil {
		return
	}
	vrt.Reach("accepted-date-time")
	vrt.Known("C11-date-year-outside-four-digits", dt.Date.Year < 0 || dt.Date.Year > 9999)
	vrt.Assert(vrt.MatchesPattern(dt.String(), pat), "accepted-date-time-matches-published-pattern")
}
