//go:build verif

package vrt

import (
	"encoding/json"
	"fmt"
	"os"
	"reflect"
	"sort"
	"strings"
	"sync"
)

type replayItem struct {
	ID      string            `json:"id"`
	Harness string            `json:"harness"`
	Model   map[string]string `json:"model"`
}

var frozenSnaps []frozenSnap

type frozenSnap struct {
	p    interface{}
	why  string
	dump string
}

// RunReplay executes the harnesses named in the VRT_REPLAY file on their models.
func RunReplay(fns map[string]func()) {
	path := os.Getenv("VRT_REPLAY")
	if path == "" {
		return
	}
	data, err := os.ReadFile(path)
	if err != nil {
		fmt.Println("VRT-ERROR", err)
		return
	}
	var items []replayItem
	if err := json.Unmarshal(data, &items); err != nil {
		fmt.Println("VRT-ERROR", err)
		return
	}
	for _, it := range items {
		fmt.Printf("VRT-ITEM %s\n", it.ID)
		fn := fns[it.Harness]
		if fn == nil {
			fmt.Printf("VRT-END missing %s\n", it.Harness)
			continue
		}
		Reset(it.Model)
		frozenSnaps = nil
		if raceMode {
			// the same harness twice at once: a store into anything the two runs share is a data race
			var wg sync.WaitGroup
			for g := 0; g < 2; g++ {
				wg.Add(1)
				go func() {
					defer wg.Done()
					runOne(fn)
				}()
			}
			wg.Wait()
			os.Stderr.Sync()
			fmt.Printf("VRT-END ok race-mode\n")
			continue
		}
		res, msg := runOne(fn)
		if res == "ok" {
			for _, s := range frozenSnaps {
				if d := Dump(s.p); d != s.dump {
					Failed = append(Failed, "frozen:"+s.why)
					fmt.Printf("VRT-FAIL label=frozen:%s known=[]\n", s.why)
				}
			}
		}
		if res == "ok" && len(Failed) > 0 {
			res = "fail"
		}
		fmt.Printf("VRT-END %s %s\n", res, strings.ReplaceAll(msg, "\n", " "))
	}
}

func runOne(fn func()) (res, msg string) {
	defer func() {
		if p := recover(); p != nil {
			if IsSkip(p) {
				res = "skip"
				return
			}
			res, msg = "panic", fmt.Sprint(p)
		}
	}()
	fn()
	return "ok", ""
}

func nativeFreeze(p interface{}, why string) {
	if raceMode {
		return // the race detector is the observer
	}
	frozenSnaps = append(frozenSnaps, frozenSnap{p, why, Dump(p)})
}

// Dump renders a value graph deterministically (pointers followed, cycles cut,
// unexported fields included, map keys sorted).
func Dump(v interface{}) string {
	var b strings.Builder
	dump(&b, reflect.ValueOf(v), map[uintptr]bool{}, 0)
	return b.String()
}

func dump(b *strings.Builder, v reflect.Value, seen map[uintptr]bool, depth int) {
	if !v.IsValid() {
		b.WriteString("<nil>")
		return
	}
	if depth > 40 {
		b.WriteString("<deep>")
		return
	}
	switch v.Kind() {
	case reflect.Ptr:
		if v.IsNil() {
			b.WriteString("nil")
			return
		}
		if seen[v.Pointer()] {
			b.WriteString("<cycle>")
			return
		}
		seen[v.Pointer()] = true
		b.WriteString("&")
		dump(b, v.Elem(), seen, depth+1)
		delete(seen, v.Pointer())
	case reflect.Interface:
		if v.IsNil() {
			b.WriteString("nil")
			return
		}
		fmt.Fprintf(b, "(%s)", v.Elem().Type())
		dump(b, v.Elem(), seen, depth+1)
	case reflect.Struct:
		b.WriteString("{")
		for i := 0; i < v.NumField(); i++ {
			if i > 0 {
				b.WriteString(" ")
			}
			b.WriteString(v.Type().Field(i).Name + ":")
			dump(b, v.Field(i), seen, depth+1)
		}
		b.WriteString("}")
	case reflect.Slice:
		if v.IsNil() {
			b.WriteString("nil[]")
			return
		}
		fallthrough
	case reflect.Array:
		b.WriteString("[")
		for i := 0; i < v.Len(); i++ {
			if i > 0 {
				b.WriteString(" ")
			}
			dump(b, v.Index(i), seen, depth+1)
		}
		b.WriteString("]")
	case reflect.Map:
		if v.IsNil() {
			b.WriteString("nilmap")
			return
		}
		type kv struct{ k, v string }
		var kvs []kv
		iter := v.MapRange()
		for iter.Next() {
			var kb, vb strings.Builder
			dump(&kb, iter.Key(), seen, depth+1)
			dump(&vb, iter.Value(), seen, depth+1)
			kvs = append(kvs, kv{kb.String(), vb.String()})
		}
		sort.Slice(kvs, func(i, j int) bool { return kvs[i].k < kvs[j].k })
		b.WriteString("map[")
		for i, e := range kvs {
			if i > 0 {
				b.WriteString(" ")
			}
			b.WriteString(e.k + ":" + e.v)
		}
		b.WriteString("]")
	case reflect.Func:
		if v.IsNil() {
			b.WriteString("nilfunc")
		} else {
			b.WriteString("func")
		}
	case reflect.Chan, reflect.UnsafePointer:
		b.WriteString("<chan/ptr>")
	case reflect.String:
		fmt.Fprintf(b, "%q", v.String())
	case reflect.Bool:
		fmt.Fprintf(b, "%v", v.Bool())
	case reflect.Int, reflect.Int8, reflect.Int16, reflect.Int32, reflect.Int64:
		fmt.Fprintf(b, "%d", v.Int())
	case reflect.Uint, reflect.Uint8, reflect.Uint16, reflect.Uint32, reflect.Uint64, reflect.Uintptr:
		fmt.Fprintf(b, "%d", v.Uint())
	case reflect.Float32, reflect.Float64:
		fmt.Fprintf(b, "%v", v.Float())
	default:
		fmt.Fprintf(b, "<%s>", v.Kind())
	}
}
