//go:build verif

// Package vrt is the harness runtime of the /verif solver-based checks. It is
// never committed to the repository: it is injected by overlay as
// github.com/invopop/gobl/internal/vrt. Under the symbolic engine every
// function here is intercepted by name; natively (replay) the inputs come from
// the JSON model named by VRT_MODEL and Assert failures are reported on stdout.
package vrt

import (
	"encoding/json"
	"fmt"
	"math/big"
	"os"
	"path/filepath"
	"regexp"
	"sort"
	"strconv"
)

// raceMode (VRT_RACE=1): a harness runs in two goroutines at once under the race detector. The runtime then
// keeps no mutable state and takes no lock (a lock would order the two runs and hide the races looked for).
var raceMode = os.Getenv("VRT_RACE") != ""

var (
	model   map[string]string
	loaded  bool
	known   []string
	Failed  []string
	Skipped bool
)

// Reset prepares a native replay with the given model.
func Reset(m map[string]string) {
	model, loaded, known, Failed, Skipped = m, true, nil, nil, false
}

func load() {
	if loaded {
		return
	}
	loaded = true
	model = map[string]string{}
	if p := os.Getenv("VRT_MODEL"); p != "" {
		data, err := os.ReadFile(p)
		if err == nil {
			_ = json.Unmarshal(data, &model)
		}
	}
}

type skip struct{}

// IsSkip tells whether a recovered panic value is the Assume(false) signal.
func IsSkip(p interface{}) bool { _, ok := p.(skip); return ok }

func get(name string) (int64, bool) {
	load()
	s, ok := model[name]
	if !ok {
		return 0, false
	}
	if s == "true" {
		return 1, true
	}
	if s == "false" {
		return 0, true
	}
	v, err := strconv.ParseInt(s, 10, 64)
	if err != nil {
		u, err2 := strconv.ParseUint(s, 10, 64)
		if err2 != nil {
			return 0, false
		}
		return int64(u), true
	}
	return v, true
}

// Symbolic reports whether the code runs under the symbolic engine.
func Symbolic() bool { return false }

// Thorough reports the tier (VERIF_TIER=thorough natively; set by the engine symbolically).
func Thorough() bool { return os.Getenv("VERIF_TIER") == "thorough" }

func Int64(name string) int64 { v, _ := get(name); return v }
func Int64In(name string, lo, hi int64) int64 {
	v, ok := get(name)
	if !ok || v < lo || v > hi {
		return lo
	}
	return v
}
func IntIn(name string, lo, hi int) int { return int(Int64In(name, int64(lo), int64(hi))) }
func Uint32In(name string, lo, hi uint32) uint32 {
	return uint32(Int64In(name, int64(lo), int64(hi)))
}
func Byte(name string) byte             { return byte(Int64In(name, 0, 255)) }
func ByteIn(name string, lo, hi byte) byte { return byte(Int64In(name, int64(lo), int64(hi))) }
func Bool(name string) bool             { v, _ := get(name); return v != 0 }
func Bytes(name string, n int) []byte {
	out := make([]byte, n)
	for i := range out {
		out[i] = Byte(fmt.Sprintf("%s[%d]", name, i))
	}
	return out
}
func String(name string, n int) string { return string(Bytes(name, n)) }

// ASCIIString: n bytes, each in 0..127.
func ASCIIString(name string, n int) string {
	out := make([]byte, n)
	for i := range out {
		out[i] = ByteIn(fmt.Sprintf("%s[%d]", name, i), 0, 127)
	}
	return string(out)
}

// ASCIIBytes: n bytes, each in 0..127.
func ASCIIBytes(name string, n int) []byte { return []byte(ASCIIString(name, n)) }
func Choice(name string, n int) int {
	if n <= 1 {
		return 0
	}
	return IntIn(name, 0, n-1)
}

func Assume(c bool) {
	if !c {
		if !raceMode {
			Skipped = true
		}
		panic(skip{})
	}
}

func Assert(c bool, label string) {
	if raceMode {
		return
	}
	ks := known
	known = nil
	if !c {
		Failed = append(Failed, label)
		fmt.Printf("VRT-FAIL label=%s known=%v\n", label, ks)
	}
}

// Known registers, for the next Assert, a known-finding class: if the assertion
// fails and class holds, the failure belongs to known finding id.
func Known(id string, class bool) {
	if class && !raceMode {
		known = append(known, id)
	}
}

func And(a, b bool) bool     { return a && b }
func Or(a, b bool) bool      { return a || b }
func Implies(a, b bool) bool { return !a || b }
func Iff(a, b bool) bool     { return a == b }
func IteInt64(c bool, a, b int64) int64 {
	if c {
		return a
	}
	return b
}
func Unwind(n int)          {}
func Unreachable(label string) { Assert(false, label) }
func Reach(label string)    {}
func Freeze(p interface{}, why string) { nativeFreeze(p, why) }
func Observe(name string, v interface{}) {
	if os.Getenv("VRT_OBSERVE") != "" {
		fmt.Printf("VRT-OBS %s=%v\n", name, v)
	}
}
func Concretize(v int) int { return v }

// MulFits reports |a*b| < bound over mathematical integers (no wrap).
func MulFits(a, b, bound int64) bool {
	x := new(big.Int).Mul(big.NewInt(a), big.NewInt(b))
	x.Abs(x)
	return x.Cmp(big.NewInt(bound)) < 0
}

// MatchesPattern: regexp.MatchString with a constant pattern (symbolically: NFA over symbolic bytes).
func MatchesPattern(s, pattern string) bool {
	return regexp.MustCompile(pattern).MatchString(s)
}

// SchemaPattern returns the first "pattern" found in the published schema file data/schemas/<rel>.
func SchemaPattern(rel string) string {
	data, err := os.ReadFile(repoRoot()+"/data/schemas/" + rel)
	if err != nil {
		return "<unreadable " + rel + ">"
	}
	var doc interface{}
	if json.Unmarshal(data, &doc) != nil {
		return "<bad json>"
	}
	return findPattern(doc)
}

// SchemaValue returns the first value (string, or integer in decimal) of member key found in the published schema
// file data/schemas/<rel>, "" when there is none: "pattern", "format", "minLength", "maxLength".
func SchemaValue(rel, key string) string {
	data, err := os.ReadFile(repoRoot()+"/data/schemas/" + rel)
	if err != nil {
		return ""
	}
	var doc interface{}
	if json.Unmarshal(data, &doc) != nil {
		return ""
	}
	var find func(v interface{}) (string, bool)
	find = func(v interface{}) (string, bool) {
		switch x := v.(type) {
		case map[string]interface{}:
			if p, ok := x[key]; ok {
				switch pv := p.(type) {
				case string:
					return pv, true
				case float64:
					return strconv.FormatInt(int64(pv), 10), true
				}
			}
			keys := make([]string, 0, len(x))
			for k := range x {
				keys = append(keys, k)
			}
			sort.Strings(keys)
			for _, k := range keys {
				if p, ok := find(x[k]); ok {
					return p, true
				}
			}
		case []interface{}:
			for _, e := range x {
				if p, ok := find(e); ok {
					return p, true
				}
			}
		}
		return "", false
	}
	s, _ := find(doc)
	return s
}

func findPattern(v interface{}) string {
	switch x := v.(type) {
	case map[string]interface{}:
		if p, ok := x["pattern"].(string); ok {
			return p
		}
		keys := make([]string, 0, len(x))
		for k := range x {
			keys = append(keys, k)
		}
		sort.Strings(keys)
		for _, k := range keys {
			if p := findPattern(x[k]); p != "" {
				return p
			}
		}
	case []interface{}:
		for _, e := range x {
			if p := findPattern(e); p != "" {
				return p
			}
		}
	}
	return ""
}

// BindSignature / BindParsed / SetStub configure the contract stubs of symbolic runs; natively the harness
// uses real keys, signatures and parsing instead, so they do nothing.
func BindSignature(sig, key, payload interface{}) {}

// NewSignature (symbolic runs only) yields a *dsig.Signature carrying a JWS and bound to (key, payload).
func NewSignature(key, payload interface{}) interface{} { return nil }
func BindParsed(v interface{})                    {}

// StraySyntax marks, in a token list handed to the json.Decoder stub, a byte at which the real decoder reports a
// syntax error (a stray closing delimiter or colon at top level): Token returns an error there; More reports false
// for a closing delimiter and true otherwise, as the real implementation does.
type StraySyntax string

// BindKeyPair (symbolic runs): pub is the public half of the private key object priv; Sign / Public on priv are
// then contract stubs (Sign yields a signature bound to pub and to a deep copy of the payload).
func BindKeyPair(priv, pub interface{}) {}
func SetStub(name string, v interface{})          {}

// BindContent ties a document object to an abstract content token (symbolic runs); DigestOf is the digest such
// content must have. Natively the harness builds real documents and computes real digests instead.
func BindContent(obj interface{}, token int64) {}
func DigestOf(token int64) string             { return "" }

// PublishedExtension reads the definition of an extension key from the published files under
// data/addons, data/regimes and data/catalogues: its allowed codes and / or its pattern.
func PublishedExtension(key string) (values []string, pattern string, found bool) {
	for _, dir := range []string{"addons", "regimes", "catalogues"} {
		files, _ := filepath.Glob(repoRoot()+"/data/" + dir + "/*.json")
		sort.Strings(files)
		for _, f := range files {
			data, err := os.ReadFile(f)
			if err != nil {
				continue
			}
			var doc struct {
				Extensions []struct {
					Key     string `json:"key"`
					Pattern string `json:"pattern"`
					Values  []struct {
						Code string `json:"code"`
					} `json:"values"`
				} `json:"extensions"`
			}
			if json.Unmarshal(data, &doc) != nil {
				continue
			}
			for _, e := range doc.Extensions {
				if e.Key == key {
					for _, v := range e.Values {
						values = append(values, v.Code)
					}
					return values, e.Pattern, true
				}
			}
		}
	}
	return nil, "", false
}

// Published lists what the published definition files under /repo/data say: kind "currencies" (codes),
// "regimes" (country codes), "addons" (keys), "tags" (tag keys for invoices of data/<name>.json).
func Published(kind, name string) []string {
	var out []string
	readJSON := func(path string, v interface{}) bool {
		data, err := os.ReadFile(path)
		return err == nil && json.Unmarshal(data, v) == nil
	}
	switch kind {
	case "currencies":
		files, _ := filepath.Glob(repoRoot()+"/data/currency/*.json")
		sort.Strings(files)
		for _, f := range files {
			var list []struct {
				Code string `json:"iso_code"`
			}
			if readJSON(f, &list) {
				for _, c := range list {
					out = append(out, c.Code)
				}
			}
		}
	case "regimes", "addons":
		files, _ := filepath.Glob(repoRoot()+"/data/" + kind + "/*.json")
		sort.Strings(files)
		for _, f := range files {
			var doc struct {
				Country string `json:"country"`
				Key     string `json:"key"`
			}
			if readJSON(f, &doc) {
				if kind == "regimes" {
					out = append(out, doc.Country)
				} else {
					out = append(out, doc.Key)
				}
			}
		}
	case "tags":
		// name: "regimes/es" or "addons/it-sdi-v1"; tags offered for invoices
		var doc struct {
			Tags []struct {
				Schema string `json:"schema"`
				List   []struct {
					Key string `json:"key"`
				} `json:"list"`
			} `json:"tags"`
		}
		if readJSON(repoRoot()+"/data/"+name+".json", &doc) {
			for _, t := range doc.Tags {
				if t.Schema == "bill/invoice" {
					for _, k := range t.List {
						out = append(out, k.Key)
					}
				}
			}
		}
	}
	return out
}

// Orient64 returns x itself natively. Symbolically it returns a sign-canonical term c and a (concrete) flag such
// that x is c or -c, and Orient64(-x) returns the same c with the opposite flag: an odd function computed on c and
// re-signed by the flag gives syntactically opposite results for x and -x.
func Orient64(x int64) (int64, bool) { return x, false }

// Abs64 is |x| (symbolically a sign-canonical term: Abs64(x) and Abs64(-x) are identical).
func Abs64(x int64) int64 {
	if x < 0 {
		return -x
	}
	return x
}

// DivFloor is floor(a/b) for b > 0 over mathematical integers.
func DivFloor(a, b int64) int64 {
	q := a / b
	if a%b < 0 {
		q--
	}
	return q
}

// OpaqueError is what the engine returns for fmt.Errorf.
type OpaqueError struct {
	Msg     string
	Wrapped error
}

func (e *OpaqueError) Error() string { return e.Msg }
func (e *OpaqueError) Unwrap() error { return e.Wrapped }

// repoRoot: /repo, or the checkout named by VERIF_REPO.
func repoRoot() string {
	if d := os.Getenv("VERIF_REPO"); d != "" {
		return d
	}
	return "/repo"
}
