//go:build verif

package vrt

import "strconv"

// Models: plain-Go stand-ins executed by the symbolic engine in place of
// callees whose real bodies are assembly / unsafe / reflect. Each is
// differential-tested natively against the real function (models_test.go).

func ModelIndexByteString(s string, c byte) int {
	for i := 0; i < len(s); i++ {
		if s[i] == c {
			return i
		}
	}
	return -1
}

func ModelIndexByte(b []byte, c byte) int {
	for i := 0; i < len(b); i++ {
		if b[i] == c {
			return i
		}
	}
	return -1
}

func ModelCountString(s string, c byte) int {
	n := 0
	for i := 0; i < len(s); i++ {
		if s[i] == c {
			n++
		}
	}
	return n
}

func ModelIndex(s, sub string) int {
	n := len(sub)
	if n == 0 {
		return 0
	}
	for i := 0; i+n <= len(s); i++ {
		if s[i:i+n] == sub {
			return i
		}
	}
	return -1
}

func ModelHasPrefix(s, p string) bool { return len(s) >= len(p) && s[:len(p)] == p }
func ModelHasSuffix(s, p string) bool { return len(s) >= len(p) && s[len(s)-len(p):] == p }

func ModelCount(s, sub string) int {
	if len(sub) == 0 {
		n := 0
		for range s {
			n++
		}
		return n + 1
	}
	n := 0
	for {
		i := ModelIndex(s, sub)
		if i == -1 {
			return n
		}
		n++
		s = s[i+len(sub):]
	}
}

func ModelEqualBytes(a, b []byte) bool { return string(a) == string(b) }

// ModelSprintf supports the verbs that occur on encoded paths: %d %s %v %q-less,
// with flags 0, width (number or *), e.g. "%s%d.%0*d", "%02d".
func ModelSprintf(format string, a ...interface{}) string {
	out := ""
	ai := 0
	for i := 0; i < len(format); i++ {
		ch := format[i]
		if ch != '%' {
			out += string(ch)
			continue
		}
		i++
		if i >= len(format) {
			break
		}
		if format[i] == '%' {
			out += "%"
			continue
		}
		zero := false
		if format[i] == '0' {
			zero = true
			i++
		}
		width := 0
		if format[i] == '*' {
			switch w := a[ai].(type) {
			case int:
				width = w
			case uint32:
				width = int(w)
			case int64:
				width = int(w)
			case uint:
				width = int(w)
			case int32:
				width = int(w)
			}
			ai++
			i++
		} else {
			for format[i] >= '0' && format[i] <= '9' {
				width = width*10 + int(format[i]-'0')
				i++
			}
		}
		verb := format[i]
		var s string
		neg := false
		switch v := a[ai].(type) {
		case int:
			if v < 0 {
				neg = true
				s = strconv.FormatUint(uint64(-int64(v)), 10)
			} else {
				s = strconv.FormatUint(uint64(v), 10)
			}
		case int64:
			if v < 0 {
				neg = true
				s = strconv.FormatUint(uint64(-v), 10)
			} else {
				s = strconv.FormatUint(uint64(v), 10)
			}
		case int32:
			s, neg = fmtInt(int64(v))
		case uint32:
			s = strconv.FormatUint(uint64(v), 10)
		case uint64:
			s = strconv.FormatUint(v, 10)
		case uint8:
			s = strconv.FormatUint(uint64(v), 10)
		case string:
			s = v
		case interface{ String() string }:
			s = v.String()
		case error:
			s = v.Error()
		default:
			s = "?"
		}
		_ = verb
		ai++
		pad := width - len(s)
		if neg {
			pad--
		}
		if zero {
			if neg {
				out += "-"
			}
			for ; pad > 0; pad-- {
				out += "0"
			}
			out += s
		} else {
			for ; pad > 0; pad-- {
				out += " "
			}
			if neg {
				out += "-"
			}
			out += s
		}
	}
	return out
}

func fmtInt(v int64) (string, bool) {
	if v < 0 {
		return strconv.FormatUint(uint64(-v), 10), true
	}
	return strconv.FormatUint(uint64(v), 10), false
}
