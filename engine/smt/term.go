// Package smt: hash-consed terms over Int/Real/Bool with light simplification and
// interval tracking, printed as SMT-LIB2.
package smt

import (
	"fmt"
	"math/big"
	"sort"
	"strings"
)

type Sort int

const (
	SBool Sort = iota
	SInt
	SReal
)

func (s Sort) String() string {
	switch s {
	case SBool:
		return "Bool"
	case SInt:
		return "Int"
	}
	return "Real"
}

type Op int

const (
	OVar Op = iota
	OConst
	OAdd
	OMul
	ONeg
	OIte
	OEq
	OLt
	OLe
	ONot
	OAnd
	OOr
	OToReal
	ODivR // real division
	OUF   // uninterpreted function application (name + args)
)

type Term struct {
	ID   int
	Op   Op
	Sort Sort
	Args []*Term
	I    *big.Int // Int const
	R    *big.Rat // Real const
	B    bool     // Bool const
	Name string   // var / UF name
	Lo   *big.Int // interval (Int sort), nil = unbounded
	Hi   *big.Int
	// Witness variables carry defining constraints (total and unique given
	// the other variables), asserted whenever the variable is mentioned.
	Defs  []*Term
	Input bool // named harness input
	Hint  *Term // for witnesses: an equality that usually holds (exact float result); used to prefer simple models
	wits  []*Term
	witsD bool
	size  int
}

type Ctx struct {
	tab    map[string]*Term
	nextID int
	fresh  int
	True   *Term
	False  *Term
	Vars   []*Term // all declared variables in creation order
	UFs    map[string]string
}

func NewCtx() *Ctx {
	c := &Ctx{tab: map[string]*Term{}, UFs: map[string]string{}}
	c.True = c.mk(&Term{Op: OConst, Sort: SBool, B: true}, "T")
	c.False = c.mk(&Term{Op: OConst, Sort: SBool, B: false}, "F")
	return c
}

func (c *Ctx) mk(t *Term, key string) *Term {
	if x, ok := c.tab[key]; ok {
		return x
	}
	t.ID = c.nextID
	c.nextID++
	t.size = 1
	for _, a := range t.Args {
		t.size += a.size
		if t.size > 1<<30 {
			t.size = 1 << 30
		}
	}
	c.tab[key] = t
	return t
}

func key(op Op, sort Sort, name string, args []*Term) string {
	var b strings.Builder
	fmt.Fprintf(&b, "%d:%d:%s", op, sort, name)
	for _, a := range args {
		fmt.Fprintf(&b, ",%d", a.ID)
	}
	return b.String()
}

func (c *Ctx) Bool(b bool) *Term {
	if b {
		return c.True
	}
	return c.False
}

func (c *Ctx) Int(v *big.Int) *Term {
	v = new(big.Int).Set(v)
	return c.mk(&Term{Op: OConst, Sort: SInt, I: v, Lo: v, Hi: v}, "I"+v.String())
}

func (c *Ctx) Int64(v int64) *Term   { return c.Int(big.NewInt(v)) }
func (c *Ctx) Uint64(v uint64) *Term { return c.Int(new(big.Int).SetUint64(v)) }

func (c *Ctx) Real(v *big.Rat) *Term {
	v = new(big.Rat).Set(v)
	return c.mk(&Term{Op: OConst, Sort: SReal, R: v}, "R"+v.String())
}

// Var declares (or returns) a variable.
func (c *Ctx) Var(name string, s Sort, lo, hi *big.Int) *Term {
	k := "V" + name
	if x, ok := c.tab[k]; ok {
		return x
	}
	t := c.mk(&Term{Op: OVar, Sort: s, Name: name, Lo: lo, Hi: hi}, k)
	c.Vars = append(c.Vars, t)
	return t
}

func (c *Ctx) Fresh(prefix string, s Sort, lo, hi *big.Int) *Term {
	c.fresh++
	return c.Var(fmt.Sprintf("%s!%d", prefix, c.fresh), s, lo, hi)
}

func (t *Term) IsConst() bool { return t.Op == OConst }

func (t *Term) ConstInt() (*big.Int, bool) {
	if t.Op == OConst && t.Sort == SInt {
		return t.I, true
	}
	return nil, false
}

func ratOf(t *Term) *big.Rat {
	if t.Sort == SInt {
		return new(big.Rat).SetInt(t.I)
	}
	return t.R
}

func (c *Ctx) Add(args ...*Term) *Term {
	s := args[0].Sort
	var flat []*Term
	var ci *big.Int
	var cr *big.Rat
	if s == SInt {
		ci = new(big.Int)
	} else {
		cr = new(big.Rat)
	}
	var walk func(a *Term)
	walk = func(a *Term) {
		if a.Sort != s {
			panic(fmt.Sprintf("smt.Add: sort mismatch %v %v", a.Sort, s))
		}
		if a.Op == OAdd {
			for _, b := range a.Args {
				walk(b)
			}
			return
		}
		if a.Op == OConst {
			if s == SInt {
				ci.Add(ci, a.I)
			} else {
				cr.Add(cr, a.R)
			}
			return
		}
		flat = append(flat, a)
	}
	for _, a := range args {
		walk(a)
	}
	// cancel x + (-x)
	if len(flat) >= 2 {
		cnt := map[int]int{}
		terms := map[int]*Term{}
		var order []int
		for _, a := range flat {
			id, sgn, base := a.ID, 1, a
			if a.Op == ONeg {
				id, sgn, base = a.Args[0].ID, -1, a.Args[0]
			}
			if _, ok := terms[id]; !ok {
				terms[id] = base
				order = append(order, id)
			}
			cnt[id] += sgn
		}
		flat = flat[:0]
		for _, id := range order {
			n := cnt[id]
			switch {
			case n == 0:
			case n == 1:
				flat = append(flat, terms[id])
			case n == -1:
				flat = append(flat, c.Neg(terms[id]))
			default:
				var k *Term
				if s == SInt {
					k = c.Int64(int64(n))
				} else {
					k = c.Real(big.NewRat(int64(n), 1))
				}
				flat = append(flat, c.Mul(k, terms[id]))
			}
		}
	}
	var k *Term
	if s == SInt {
		if ci.Sign() != 0 {
			k = c.Int(ci)
		}
	} else if cr.Sign() != 0 {
		k = c.Real(cr)
	}
	if k != nil {
		flat = append(flat, k)
	}
	if len(flat) == 0 {
		if s == SInt {
			return c.Int64(0)
		}
		return c.Real(new(big.Rat))
	}
	if len(flat) == 1 {
		return flat[0]
	}
	// addition is commutative: canonical argument order
	sort.SliceStable(flat, func(i, j int) bool { return flat[i].ID < flat[j].ID })
	t := &Term{Op: OAdd, Sort: s, Args: flat}
	if s == SInt {
		lo, hi := new(big.Int), new(big.Int)
		ok := true
		for _, a := range flat {
			if a.Lo == nil || a.Hi == nil {
				ok = false
				break
			}
			lo.Add(lo, a.Lo)
			hi.Add(hi, a.Hi)
		}
		if ok {
			t.Lo, t.Hi = lo, hi
		}
	}
	return c.mk(t, key(OAdd, s, "", flat))
}

func (c *Ctx) Neg(a *Term) *Term {
	if a.Op == OConst {
		if a.Sort == SInt {
			return c.Int(new(big.Int).Neg(a.I))
		}
		return c.Real(new(big.Rat).Neg(a.R))
	}
	if a.Op == ONeg {
		return a.Args[0]
	}
	t := &Term{Op: ONeg, Sort: a.Sort, Args: []*Term{a}}
	if a.Sort == SInt && a.Lo != nil && a.Hi != nil {
		t.Lo, t.Hi = new(big.Int).Neg(a.Hi), new(big.Int).Neg(a.Lo)
	}
	return c.mk(t, key(ONeg, a.Sort, "", t.Args))
}

func (c *Ctx) Sub(a, b *Term) *Term { return c.Add(a, c.Neg(b)) }

func (c *Ctx) Mul(a, b *Term) *Term {
	if a.Sort != b.Sort {
		panic("smt.Mul: sort mismatch")
	}
	if b.Op == OConst && a.Op != OConst {
		a, b = b, a
	}
	if a.Op == OConst {
		if b.Op == OConst {
			if a.Sort == SInt {
				return c.Int(new(big.Int).Mul(a.I, b.I))
			}
			return c.Real(new(big.Rat).Mul(a.R, b.R))
		}
		r := ratOf(a)
		if r.Sign() == 0 {
			return a
		}
		if r.Cmp(big.NewRat(1, 1)) == 0 {
			return b
		}
		if r.Cmp(big.NewRat(-1, 1)) == 0 {
			return c.Neg(b)
		}
		if b.Op == ONeg {
			return c.Mul(c.Neg(a), b.Args[0])
		}
	}
	args := []*Term{a, b}
	if a.Op != OConst && a.ID > b.ID {
		args = []*Term{b, a}
	}
	t := &Term{Op: OMul, Sort: a.Sort, Args: args}
	if a.Sort == SInt && a.Lo != nil && a.Hi != nil && b.Lo != nil && b.Hi != nil {
		p := []*big.Int{
			new(big.Int).Mul(a.Lo, b.Lo), new(big.Int).Mul(a.Lo, b.Hi),
			new(big.Int).Mul(a.Hi, b.Lo), new(big.Int).Mul(a.Hi, b.Hi)}
		lo, hi := p[0], p[0]
		for _, x := range p[1:] {
			if x.Cmp(lo) < 0 {
				lo = x
			}
			if x.Cmp(hi) > 0 {
				hi = x
			}
		}
		t.Lo, t.Hi = lo, hi
	}
	return c.mk(t, key(OMul, a.Sort, "", args))
}

// DivR is real division.
func (c *Ctx) DivR(a, b *Term) *Term {
	if a.Sort != SReal || b.Sort != SReal {
		panic("smt.DivR: not real")
	}
	if b.Op == OConst && b.R.Sign() != 0 {
		return c.Mul(c.Real(new(big.Rat).Inv(b.R)), a)
	}
	args := []*Term{a, b}
	return c.mk(&Term{Op: ODivR, Sort: SReal, Args: args}, key(ODivR, SReal, "", args))
}

func (c *Ctx) ToReal(a *Term) *Term {
	if a.Sort == SReal {
		return a
	}
	if a.Op == OConst {
		return c.Real(new(big.Rat).SetInt(a.I))
	}
	args := []*Term{a}
	return c.mk(&Term{Op: OToReal, Sort: SReal, Args: args}, key(OToReal, SReal, "", args))
}

func (c *Ctx) Not(a *Term) *Term {
	if a.Op == OConst {
		return c.Bool(!a.B)
	}
	if a.Op == ONot {
		return a.Args[0]
	}
	args := []*Term{a}
	return c.mk(&Term{Op: ONot, Sort: SBool, Args: args}, key(ONot, SBool, "", args))
}

func (c *Ctx) nary(op Op, args []*Term) *Term {
	unit := op == OAnd // And: true is unit, false absorbs
	var flat []*Term
	seen := map[int]bool{}
	for _, a := range args {
		var xs []*Term
		if a.Op == op {
			xs = a.Args
		} else {
			xs = []*Term{a}
		}
		for _, x := range xs {
			if x.Op == OConst {
				if x.B == unit {
					continue
				}
				return x
			}
			if seen[x.ID] {
				continue
			}
			seen[x.ID] = true
			flat = append(flat, x)
		}
	}
	for _, x := range flat {
		if x.Op == ONot && seen[x.Args[0].ID] {
			return c.Bool(!unit)
		}
	}
	if len(flat) == 0 {
		return c.Bool(unit)
	}
	if len(flat) == 1 {
		return flat[0]
	}
	sort.Slice(flat, func(i, j int) bool { return flat[i].ID < flat[j].ID })
	return c.mk(&Term{Op: op, Sort: SBool, Args: flat}, key(op, SBool, "", flat))
}

func (c *Ctx) And(args ...*Term) *Term { return c.nary(OAnd, args) }
func (c *Ctx) Or(args ...*Term) *Term  { return c.nary(OOr, args) }
func (c *Ctx) Implies(a, b *Term) *Term {
	return c.Or(c.Not(a), b)
}

func (c *Ctx) Ite(cond, a, b *Term) *Term {
	if cond.Op == OConst {
		if cond.B {
			return a
		}
		return b
	}
	if a == b {
		return a
	}
	if a.Sort != b.Sort {
		panic("smt.Ite: sort mismatch")
	}
	if a.Sort == SBool {
		if a.Op == OConst && b.Op == OConst {
			if a.B {
				return cond
			}
			return c.Not(cond)
		}
		return c.Or(c.And(cond, a), c.And(c.Not(cond), b))
	}
	if cond.Op == ONot {
		cond, a, b = cond.Args[0], b, a
	}
	args := []*Term{cond, a, b}
	t := &Term{Op: OIte, Sort: a.Sort, Args: args}
	if a.Sort == SInt && a.Lo != nil && b.Lo != nil && a.Hi != nil && b.Hi != nil {
		t.Lo, t.Hi = a.Lo, a.Hi
		if b.Lo.Cmp(t.Lo) < 0 {
			t.Lo = b.Lo
		}
		if b.Hi.Cmp(t.Hi) > 0 {
			t.Hi = b.Hi
		}
	}
	return c.mk(t, key(OIte, a.Sort, "", args))
}

func (c *Ctx) Eq(a, b *Term) *Term {
	if a == b {
		return c.True
	}
	if a.Sort != b.Sort {
		panic(fmt.Sprintf("smt.Eq: sort mismatch %v %v", a.Sort, b.Sort))
	}
	if a.Op == OConst && b.Op == OConst {
		switch a.Sort {
		case SBool:
			return c.Bool(a.B == b.B)
		case SInt:
			return c.Bool(a.I.Cmp(b.I) == 0)
		default:
			return c.Bool(a.R.Cmp(b.R) == 0)
		}
	}
	if a.Sort == SBool {
		if a.Op == OConst {
			a, b = b, a
		}
		if b.Op == OConst {
			if b.B {
				return a
			}
			return c.Not(a)
		}
	}
	if a.Sort == SInt {
		if a.Lo != nil && b.Hi != nil && a.Lo.Cmp(b.Hi) > 0 {
			return c.False
		}
		if a.Hi != nil && b.Lo != nil && a.Hi.Cmp(b.Lo) < 0 {
			return c.False
		}
		// ite(c, k1, k2) == k  with constants
		if b.Op == OConst && a.Op == OIte {
			return c.Ite(a.Args[0], c.Eq(a.Args[1], b), c.Eq(a.Args[2], b))
		}
		if a.Op == OConst && b.Op == OIte {
			return c.Ite(b.Args[0], c.Eq(b.Args[1], a), c.Eq(b.Args[2], a))
		}
	}
	args := []*Term{a, b}
	if a.ID > b.ID {
		args = []*Term{b, a}
	}
	return c.mk(&Term{Op: OEq, Sort: SBool, Args: args}, key(OEq, SBool, "", args))
}

func (c *Ctx) cmp(op Op, a, b *Term) *Term {
	if a.Sort != b.Sort {
		panic("smt.cmp: sort mismatch")
	}
	if a.Op == OConst && b.Op == OConst {
		r := ratOf(a).Cmp(ratOf(b))
		if op == OLt {
			return c.Bool(r < 0)
		}
		return c.Bool(r <= 0)
	}
	if a == b {
		return c.Bool(op == OLe)
	}
	if a.Sort == SInt {
		if a.Hi != nil && b.Lo != nil {
			r := a.Hi.Cmp(b.Lo)
			if r < 0 || (r == 0 && op == OLe) {
				return c.True
			}
		}
		if a.Lo != nil && b.Hi != nil {
			r := a.Lo.Cmp(b.Hi)
			if r > 0 || (r == 0 && op == OLt) {
				return c.False
			}
		}
		if b.Op == OConst && a.Op == OIte && a.Args[1].Op == OConst && a.Args[2].Op == OConst {
			return c.Ite(a.Args[0], c.cmp(op, a.Args[1], b), c.cmp(op, a.Args[2], b))
		}
		if a.Op == OConst && b.Op == OIte && b.Args[1].Op == OConst && b.Args[2].Op == OConst {
			return c.Ite(b.Args[0], c.cmp(op, a, b.Args[1]), c.cmp(op, a, b.Args[2]))
		}
	}
	args := []*Term{a, b}
	return c.mk(&Term{Op: op, Sort: SBool, Args: args}, key(op, SBool, "", args))
}

// Lt is represented as the negation of the converse Le so that "x < 0" and
// "not (0 <= x)" are one term.
func (c *Ctx) Lt(a, b *Term) *Term { return c.Not(c.cmp(OLe, b, a)) }
func (c *Ctx) Le(a, b *Term) *Term { return c.cmp(OLe, a, b) }
func (c *Ctx) Gt(a, b *Term) *Term { return c.Lt(b, a) }
func (c *Ctx) Ge(a, b *Term) *Term { return c.cmp(OLe, b, a) }

// UF applies an uninterpreted function (declared on first use).
func (c *Ctx) UF(name string, ret Sort, args ...*Term) *Term {
	sig := "("
	for i, a := range args {
		if i > 0 {
			sig += " "
		}
		sig += a.Sort.String()
	}
	sig += ") " + ret.String()
	if old, ok := c.UFs[name]; ok && old != sig {
		panic("smt.UF: signature clash for " + name)
	}
	c.UFs[name] = sig
	return c.mk(&Term{Op: OUF, Sort: ret, Name: name, Args: args}, key(OUF, ret, name, args))
}

// AddDef attaches a defining constraint to a witness variable.
func (t *Term) AddDef(d *Term) {
	if t.Op != OVar {
		panic("AddDef on non-var")
	}
	t.Defs = append(t.Defs, d)
}

// Witnesses returns the witness variables (those with Defs) reachable from t,
// transitively through their definitions.
func (t *Term) Witnesses() []*Term {
	seen := map[int]bool{}
	var out []*Term
	var walk func(x *Term)
	walk = func(x *Term) {
		if seen[x.ID] {
			return
		}
		seen[x.ID] = true
		if x.Op == OVar {
			if len(x.Defs) > 0 || x.Lo != nil || x.Hi != nil {
				out = append(out, x)
				for _, d := range x.Defs {
					walk(d)
				}
			}
			return
		}
		for _, a := range x.Args {
			walk(a)
		}
	}
	walk(t)
	return out
}

// InRange reports whether the interval of t is known to lie in [lo,hi].
func (t *Term) InRange(lo, hi *big.Int) bool {
	return t.Lo != nil && t.Hi != nil && t.Lo.Cmp(lo) >= 0 && t.Hi.Cmp(hi) <= 0
}

func (t *Term) Size() int { return t.size }

// Eval evaluates t under a model (variables by name). Missing variables → error.
func Eval(t *Term, m map[string]*big.Rat) (*big.Rat, error) {
	memo := map[int]*big.Rat{}
	var ev func(x *Term) (*big.Rat, error)
	b2r := func(b bool) *big.Rat {
		if b {
			return big.NewRat(1, 1)
		}
		return new(big.Rat)
	}
	ev = func(x *Term) (*big.Rat, error) {
		if r, ok := memo[x.ID]; ok {
			return r, nil
		}
		var r *big.Rat
		switch x.Op {
		case OConst:
			switch x.Sort {
			case SBool:
				r = b2r(x.B)
			case SInt:
				r = new(big.Rat).SetInt(x.I)
			default:
				r = x.R
			}
		case OVar:
			v, ok := m[x.Name]
			if !ok {
				return nil, fmt.Errorf("no value for %s", x.Name)
			}
			r = v
		case OUF:
			return nil, fmt.Errorf("cannot evaluate UF %s", x.Name)
		default:
			as := make([]*big.Rat, len(x.Args))
			for i, a := range x.Args {
				if x.Op == OIte && i > 0 {
					continue
				}
				v, err := ev(a)
				if err != nil {
					return nil, err
				}
				as[i] = v
			}
			switch x.Op {
			case OAdd:
				r = new(big.Rat)
				for _, a := range as {
					r.Add(r, a)
				}
			case OMul:
				r = new(big.Rat).Mul(as[0], as[1])
			case ONeg:
				r = new(big.Rat).Neg(as[0])
			case OIte:
				var err error
				if as[0].Sign() != 0 {
					r, err = ev(x.Args[1])
				} else {
					r, err = ev(x.Args[2])
				}
				if err != nil {
					return nil, err
				}
			case OEq:
				r = b2r(as[0].Cmp(as[1]) == 0)
			case OLt:
				r = b2r(as[0].Cmp(as[1]) < 0)
			case OLe:
				r = b2r(as[0].Cmp(as[1]) <= 0)
			case ONot:
				r = b2r(as[0].Sign() == 0)
			case OAnd:
				r = b2r(true)
				for _, a := range as {
					if a.Sign() == 0 {
						r = b2r(false)
					}
				}
			case OOr:
				r = b2r(false)
				for _, a := range as {
					if a.Sign() != 0 {
						r = b2r(true)
					}
				}
			case OToReal:
				r = as[0]
			case ODivR:
				if as[1].Sign() == 0 {
					return nil, fmt.Errorf("division by zero")
				}
				r = new(big.Rat).Quo(as[0], as[1])
			}
		}
		memo[x.ID] = r
		return r, nil
	}
	return ev(t)
}

// String renders the term inline (depth-limited), for debugging.
func (t *Term) String() string { return t.str(6) }

func (t *Term) str(d int) string {
	switch t.Op {
	case OConst:
		switch t.Sort {
		case SBool:
			return fmt.Sprint(t.B)
		case SInt:
			return t.I.String()
		}
		return t.R.RatString()
	case OVar:
		return t.Name
	}
	if d == 0 {
		return fmt.Sprintf("t%d", t.ID)
	}
	names := map[Op]string{OAdd: "+", OMul: "*", ONeg: "-", OIte: "ite", OEq: "=", OLt: "<", OLe: "<=", ONot: "not", OAnd: "and", OOr: "or", OToReal: "real", ODivR: "/", OUF: t.Name}
	s := "(" + names[t.Op]
	for _, a := range t.Args {
		s += " " + a.str(d-1)
	}
	return s + ")"
}

// Orient returns a sign-canonical form of an integer term: Orient(t) and Orient(-t) yield the same canonical
// term (with opposite flags), whichever way the negation was built (a negated sum, a sum of negated terms, a
// product with a negative constant, a choice between u and -u). t equals canon when neg is false, -canon otherwise.
// It is what lets |t| and |-t| be one and the same term, so that the Euclid witnesses of a division are shared
// between a computation and the same computation on negated inputs.
func (c *Ctx) Orient(t *Term) (canon *Term, neg bool) {
	if t.Sort != SInt {
		return t, false
	}
	switch t.Op {
	case OConst:
		if t.I.Sign() < 0 {
			return c.Int(new(big.Int).Neg(t.I)), true
		}
		return t, false
	case ONeg:
		cu, nu := c.Orient(t.Args[0])
		return cu, !nu
	case OMul:
		ca, na := c.Orient(t.Args[0])
		cb, nb := c.Orient(t.Args[1])
		return c.Mul(ca, cb), na != nb
	case OAdd:
		type oa struct {
			c *Term
			n bool
		}
		parts := make([]oa, len(t.Args))
		pivot := -1
		for k, a := range t.Args {
			ca, na := c.Orient(a)
			parts[k] = oa{ca, na}
			if ca.Op == OConst {
				continue // constants are not used as pivot
			}
			if pivot < 0 || ca.ID < parts[pivot].c.ID {
				pivot = k
			}
		}
		if pivot < 0 {
			return t, false
		}
		flip := parts[pivot].n
		args := make([]*Term, len(parts))
		for k, p := range parts {
			if p.n != flip {
				args[k] = c.Neg(p.c)
			} else {
				args[k] = p.c
			}
		}
		return c.Add(args...), flip
	case OIte:
		// a choice between u and -u: canonical up to sign only when both branches have the same canonical form
		ca, na := c.Orient(t.Args[1])
		cb, nb := c.Orient(t.Args[2])
		if ca == cb {
			if na == nb {
				return ca, na
			}
			// value is ±ca depending on the condition: keep the term itself but with a fixed orientation
			cond := t.Args[0]
			if na { // t = cond ? -ca : ca  (already the orientation we keep)
				return t, false
			}
			// t = cond ? ca : -ca  = -(cond ? -ca : ca)
			return c.Ite(cond, c.Neg(ca), ca), true
		}
	}
	return t, false
}

// Abs builds |t| so that Abs(t) and Abs(-t) are the identical term.
func (c *Ctx) Abs(t *Term) *Term {
	if t.Sort != SInt {
		return c.Ite(c.Le(c.Real(new(big.Rat)), t), t, c.Neg(t))
	}
	if t.Lo != nil && t.Lo.Sign() >= 0 {
		return t
	}
	if t.Hi != nil && t.Hi.Sign() <= 0 {
		return c.Neg(t)
	}
	cn, _ := c.Orient(t)
	// |cond ? -u : u| = |u|
	if cn.Op == OIte {
		ca, _ := c.Orient(cn.Args[1])
		cb, _ := c.Orient(cn.Args[2])
		if ca == cb {
			return c.Abs(ca)
		}
	}
	if cn.Lo != nil && cn.Lo.Sign() >= 0 {
		return cn
	}
	if cn.Hi != nil && cn.Hi.Sign() <= 0 {
		return c.Neg(cn)
	}
	return c.Ite(c.Le(c.Int64(0), cn), cn, c.Neg(cn))
}
