package smt

import (
	"bufio"
	"fmt"
	"io"
	"math/big"
	"os"
	"os/exec"
	"strings"
	"time"
)

type Result int

const (
	Unsat Result = iota
	Sat
	Unknown
)

func (r Result) String() string {
	return [...]string{"unsat", "sat", "unknown"}[r]
}

// Solver drives one persistent SMT-LIB2 process.
type Solver struct {
	ctx     *Ctx
	Name    string
	cmd     *exec.Cmd
	in      io.WriteCloser
	out     *bufio.Reader
	defined map[int]bool // terms with a define-fun / declare emitted
	ufs     map[string]bool
	defsAt  []map[int]bool // witness defs asserted per push level
	Errors  []string
	Queries int
	Time    time.Duration
	log     *os.File
	buf     strings.Builder
	dead    bool
	argv    []string
	tmo     int
}

func NewSolver(ctx *Ctx, name string, argv []string, timeoutMs int, logPath string) (*Solver, error) {
	s := &Solver{ctx: ctx, Name: name, argv: argv, tmo: timeoutMs}
	if logPath != "" {
		f, err := os.Create(logPath)
		if err == nil {
			s.log = f
		}
	}
	if err := s.start(); err != nil {
		return nil, err
	}
	return s, nil
}

func (s *Solver) start() error {
	s.cmd = exec.Command(s.argv[0], s.argv[1:]...)
	in, err := s.cmd.StdinPipe()
	if err != nil {
		return err
	}
	out, err := s.cmd.StdoutPipe()
	if err != nil {
		return err
	}
	s.cmd.Stderr = s.cmd.Stdout
	if err := s.cmd.Start(); err != nil {
		return err
	}
	s.in, s.out = in, bufio.NewReaderSize(out, 1<<20)
	s.defined = map[int]bool{}
	s.ufs = map[string]bool{}
	s.defsAt = []map[int]bool{{}}
	s.dead = false
	s.buf.Reset()
	s.send("(set-option :global-declarations true)")
	if strings.Contains(s.argv[0], "z3") {
		s.send(fmt.Sprintf("(set-option :timeout %d)", s.tmo))
	}
	s.send("(set-logic ALL)")
	return nil
}

func (s *Solver) SetTimeout(ms int) {
	s.tmo = ms
	if strings.Contains(s.argv[0], "z3") {
		s.send(fmt.Sprintf("(set-option :timeout %d)", ms))
	}
}

// Restart kills the process and starts a fresh one (after a hang or crash).
func (s *Solver) Restart() error {
	s.Close()
	return s.start()
}

func (s *Solver) Close() {
	if s.cmd != nil && s.cmd.Process != nil {
		s.in.Close()
		s.cmd.Process.Kill()
		s.cmd.Wait()
	}
}

func (s *Solver) send(line string) {
	if s.dead {
		return
	}
	s.buf.WriteString(line)
	s.buf.WriteByte('\n')
	if s.log != nil {
		s.log.WriteString(line + "\n")
	}
}

func (s *Solver) flush() {
	if s.buf.Len() == 0 {
		return
	}
	if _, err := io.WriteString(s.in, s.buf.String()); err != nil {
		s.dead = true
		s.Errors = append(s.Errors, "write: "+err.Error())
	}
	s.buf.Reset()
}

func (s *Solver) readLine() (string, error) {
	type res struct {
		l   string
		err error
	}
	ch := make(chan res, 1)
	go func() {
		l, err := s.out.ReadString('\n')
		ch <- res{l, err}
	}()
	// hard cap: solver timeout + slack
	select {
	case r := <-ch:
		return strings.TrimRight(r.l, "\r\n"), r.err
	case <-time.After(time.Duration(s.tmo)*time.Millisecond*3/2 + 5*time.Second):
		s.dead = true
		s.cmd.Process.Kill()
		return "", fmt.Errorf("solver hard timeout")
	}
}

func (s *Solver) level() int { return len(s.defsAt) - 1 }

func (s *Solver) Push() {
	s.send("(push 1)")
	s.defsAt = append(s.defsAt, map[int]bool{})
}

func (s *Solver) Pop() {
	s.send("(pop 1)")
	s.defsAt = s.defsAt[:len(s.defsAt)-1]
}

// PopTo pops to the given level.
func (s *Solver) PopTo(level int) {
	for s.level() > level {
		s.Pop()
	}
}

func (s *Solver) defAsserted(id int) bool {
	for _, m := range s.defsAt {
		if m[id] {
			return true
		}
	}
	return false
}

func intLit(v *big.Int) string {
	if v.Sign() < 0 {
		return "(- " + new(big.Int).Neg(v).String() + ")"
	}
	return v.String()
}

func realLit(v *big.Rat) string {
	neg := v.Sign() < 0
	a := new(big.Rat).Abs(v)
	var str string
	if a.IsInt() {
		str = a.Num().String() + ".0"
	} else {
		str = "(/ " + a.Num().String() + ".0 " + a.Denom().String() + ".0)"
	}
	if neg {
		return "(- " + str + ")"
	}
	return str
}

func symName(n string) string {
	return "|" + strings.ReplaceAll(strings.ReplaceAll(n, "|", "_"), "\\", "_") + "|"
}

// ref returns the SMT-LIB reference for a (defined) term.
func (s *Solver) ref(t *Term) string {
	switch t.Op {
	case OConst:
		switch t.Sort {
		case SBool:
			if t.B {
				return "true"
			}
			return "false"
		case SInt:
			return intLit(t.I)
		default:
			return realLit(t.R)
		}
	case OVar:
		return symName(t.Name)
	}
	return fmt.Sprintf("t%d", t.ID)
}

var opName = map[Op]string{OAdd: "+", OMul: "*", ONeg: "-", OIte: "ite", OEq: "=", OLt: "<", OLe: "<=",
	ONot: "not", OAnd: "and", OOr: "or", OToReal: "to_real", ODivR: "/"}

// ensure emits declarations/definitions for t's cone (iterative post-order).
func (s *Solver) ensure(root *Term) {
	if s.defined[root.ID] {
		return
	}
	type fr struct {
		t *Term
		i int
	}
	stack := []fr{{root, 0}}
	for len(stack) > 0 {
		f := &stack[len(stack)-1]
		t := f.t
		if s.defined[t.ID] {
			stack = stack[:len(stack)-1]
			continue
		}
		if f.i < len(t.Args) {
			a := t.Args[f.i]
			f.i++
			if !s.defined[a.ID] {
				stack = append(stack, fr{a, 0})
			}
			continue
		}
		switch t.Op {
		case OConst:
		case OVar:
			s.send(fmt.Sprintf("(declare-const %s %s)", symName(t.Name), t.Sort))
		default:
			if t.Op == OUF && !s.ufs[t.Name] {
				s.ufs[t.Name] = true
				s.send(fmt.Sprintf("(declare-fun %s %s)", symName(t.Name), s.ctx.UFs[t.Name]))
			}
			var b strings.Builder
			fmt.Fprintf(&b, "(define-fun t%d () %s (", t.ID, t.Sort)
			if t.Op == OUF {
				b.WriteString(symName(t.Name))
			} else {
				b.WriteString(opName[t.Op])
			}
			for _, a := range t.Args {
				b.WriteByte(' ')
				b.WriteString(s.ref(a))
			}
			b.WriteString("))")
			s.send(b.String())
		}
		s.defined[t.ID] = true
		stack = stack[:len(stack)-1]
	}
}

// Input range assertions are emitted at declaration, which may happen inside a
// push scope; to keep them permanent all declarations must happen at level 0.
// Callers therefore call Declare (level 0) before Push for anything new; Assert
// does this automatically by emitting definitions before the assertion, and the
// engine keeps the solver at level 0 between paths.  To be safe against ranges
// lost by a pop, ranges are also re-asserted as part of witness handling below.

func (s *Solver) Assert(t *Term) {
	if t.Sort != SBool {
		panic("assert of non-bool")
	}
	s.ensure(t)
	s.assertDefs(t)
	s.send("(assert " + s.ref(t) + ")")
}

func (s *Solver) assertDefs(t *Term) {
	if !t.witsD {
		t.wits = t.Witnesses()
		t.witsD = true
	}
	for _, w := range t.wits {
		if s.defAsserted(w.ID) {
			continue
		}
		s.defsAt[s.level()][w.ID] = true
		if w.Sort == SInt {
			s.ensure(w)
			if w.Lo != nil {
				s.send(fmt.Sprintf("(assert (<= %s %s))", intLit(w.Lo), symName(w.Name)))
			}
			if w.Hi != nil {
				s.send(fmt.Sprintf("(assert (<= %s %s))", symName(w.Name), intLit(w.Hi)))
			}
		}
		for _, d := range w.Defs {
			s.ensure(d)
			s.send("(assert " + s.ref(d) + ")")
		}
	}
}

func (s *Solver) Check() Result {
	if s.dead {
		return Unknown
	}
	s.send("(check-sat)")
	s.flush()
	t0 := time.Now()
	defer func() { s.Time += time.Since(t0); s.Queries++ }()
	for {
		l, err := s.readLine()
		if err != nil {
			s.Errors = append(s.Errors, "read: "+err.Error())
			s.dead = true
			return Unknown
		}
		switch {
		case l == "sat":
			return Sat
		case l == "unsat":
			return Unsat
		case l == "unknown" || l == "timeout":
			return Unknown
		case strings.HasPrefix(l, "(error"):
			s.Errors = append(s.Errors, l)
			// keep reading: the check-sat answer follows, but it is tainted
			for {
				l2, err := s.readLine()
				if err != nil {
					s.dead = true
					return Unknown
				}
				if l2 == "sat" || l2 == "unsat" || l2 == "unknown" || l2 == "timeout" {
					return Unknown
				}
				if strings.HasPrefix(l2, "(error") {
					s.Errors = append(s.Errors, l2)
				}
			}
		case l == "":
		default:
			// unexpected chatter
			s.Errors = append(s.Errors, "unexpected: "+l)
		}
	}
}

func (s *Solver) Dead() bool { return s.dead }

// CheckWith checks satisfiability of the current assertions plus extra, without
// keeping extra.
func (s *Solver) CheckWith(extra ...*Term) Result {
	for _, e := range extra {
		s.ensure(e)
	}
	s.Push()
	for _, e := range extra {
		s.Assert(e)
	}
	r := s.Check()
	if s.dead {
		return Unknown
	}
	s.Pop()
	return r
}

// Values returns values of the given terms in the current sat state (must be
// called right after a Sat Check, inside the same scope).
func (s *Solver) Values(ts []*Term) (map[string]*big.Rat, error) {
	out := map[string]*big.Rat{}
	if len(ts) == 0 {
		return out, nil
	}
	var b strings.Builder
	b.WriteString("(get-value (")
	for _, t := range ts {
		s.ensure(t)
		b.WriteString(s.ref(t))
		b.WriteByte(' ')
	}
	b.WriteString("))")
	s.send(b.String())
	s.flush()
	// read a balanced s-expression
	var acc strings.Builder
	depth, started := 0, false
	for {
		l, err := s.readLine()
		if err != nil {
			s.dead = true
			return nil, err
		}
		if strings.HasPrefix(l, "(error") {
			s.Errors = append(s.Errors, l)
			return nil, fmt.Errorf("%s", l)
		}
		acc.WriteString(l)
		acc.WriteByte(' ')
		inBar := false
		for _, ch := range l {
			if ch == '|' {
				inBar = !inBar
			}
			if inBar {
				continue
			}
			if ch == '(' {
				depth++
				started = true
			} else if ch == ')' {
				depth--
			}
		}
		if started && depth <= 0 {
			break
		}
	}
	sx, err := parseSexp(acc.String())
	if err != nil {
		return nil, err
	}
	if len(sx.kids) != len(ts) {
		return nil, fmt.Errorf("get-value: %d answers for %d terms", len(sx.kids), len(ts))
	}
	for i, kv := range sx.kids {
		if len(kv.kids) != 2 {
			return nil, fmt.Errorf("get-value: bad pair")
		}
		v, err := sexpValue(kv.kids[1])
		if err != nil {
			return nil, err
		}
		t := ts[i]
		name := t.Name
		if t.Op != OVar {
			name = fmt.Sprintf("t%d", t.ID)
		}
		out[name] = v
	}
	return out, nil
}

type sexp struct {
	atom string
	kids []*sexp
	list bool
}

func parseSexp(src string) (*sexp, error) {
	pos := 0
	var parse func() (*sexp, error)
	skip := func() {
		for pos < len(src) && (src[pos] == ' ' || src[pos] == '\n' || src[pos] == '\t') {
			pos++
		}
	}
	parse = func() (*sexp, error) {
		skip()
		if pos >= len(src) {
			return nil, fmt.Errorf("sexp: eof")
		}
		if src[pos] == '(' {
			pos++
			n := &sexp{list: true}
			for {
				skip()
				if pos >= len(src) {
					return nil, fmt.Errorf("sexp: eof in list")
				}
				if src[pos] == ')' {
					pos++
					return n, nil
				}
				k, err := parse()
				if err != nil {
					return nil, err
				}
				n.kids = append(n.kids, k)
			}
		}
		st := pos
		if src[pos] == '|' {
			pos++
			for pos < len(src) && src[pos] != '|' {
				pos++
			}
			pos++
			return &sexp{atom: src[st:pos]}, nil
		}
		for pos < len(src) && src[pos] != ' ' && src[pos] != ')' && src[pos] != '(' && src[pos] != '\n' {
			pos++
		}
		return &sexp{atom: src[st:pos]}, nil
	}
	return parse()
}

func sexpValue(x *sexp) (*big.Rat, error) {
	if !x.list {
		switch x.atom {
		case "true":
			return big.NewRat(1, 1), nil
		case "false":
			return new(big.Rat), nil
		}
		a := strings.TrimSuffix(x.atom, "?")
		r, ok := new(big.Rat).SetString(a)
		if !ok {
			return nil, fmt.Errorf("value: cannot parse %q", x.atom)
		}
		return r, nil
	}
	if len(x.kids) == 0 {
		return nil, fmt.Errorf("value: empty list")
	}
	op := x.kids[0].atom
	switch {
	case op == "-" && len(x.kids) == 2:
		v, err := sexpValue(x.kids[1])
		if err != nil {
			return nil, err
		}
		return new(big.Rat).Neg(v), nil
	case op == "/" && len(x.kids) == 3:
		a, err := sexpValue(x.kids[1])
		if err != nil {
			return nil, err
		}
		b, err := sexpValue(x.kids[2])
		if err != nil {
			return nil, err
		}
		if b.Sign() == 0 {
			return nil, fmt.Errorf("value: /0")
		}
		return new(big.Rat).Quo(a, b), nil
	}
	return nil, fmt.Errorf("value: unsupported form (%s ...)", op)
}
