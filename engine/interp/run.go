package interp

// Path exploration: stateless re-execution under a decision vector.

import (
	"strconv"
	"fmt"
	"math/big"
	"sort"
	"strings"
	"time"

	"golang.org/x/tools/go/ssa"

	"gsx/smt"
)

type DKind int

const (
	DBranch DKind = iota
	DPick         // concretisation: V chosen (Excl nil) or pending with exclusions
)

type Decision struct {
	Kind    DKind
	B       bool
	V       *big.Int
	Excl    []*big.Int
	Pending bool
}

func (d Decision) String() string {
	if d.Kind == DBranch {
		if d.B {
			return "T"
		}
		return "F"
	}
	if d.Pending {
		return fmt.Sprintf("?¬%v", d.Excl)
	}
	return "=" + d.V.String()
}

func DecisionsString(ds []Decision) string {
	var b strings.Builder
	for _, d := range ds {
		b.WriteString(d.String())
	}
	return b.String()
}

// Session owns a term context, a solver process and the memo tables keyed on
// term ids; it lives across several paths and is recycled periodically.
type Session struct {
	ctx      *smt.Ctx
	solver   *smt.Solver
	memo     map[string]*smt.Term
	memo2    map[string][2]*smt.Term
	memoBits map[string][]*smt.Term
	paths    int
}

type runStats struct {
	wraps, euclids, frounds int
	instrs                  int64
	forks                   int
	feasQueries             int
	unknownFeas             int
}

// Obligation result kinds.
type Finding struct {
	Harness  string
	Label    string
	Kind     string // "assert", "panic", "frozen-write", "known:<id>"
	Model    map[string]string
	Decs     string
	Detail   string
	KnownID  string
	Replayed string // "", "confirmed", "not-confirmed"
}

// ProbeSpec describes the inputs of a path on which an obligation stayed unknown: the choices made (fixed) and the
// ranges of the symbolic inputs. The driver draws concrete inputs from it and runs the harness natively: a failing
// run turns the unknown into a replay-confirmed counterexample (an unknown never turns into a pass).
type ProbeSpec struct {
	Label string
	Fixed map[string]string    // choices fixed by the path
	Free  map[string][2]string // symbolic inputs: inclusive range (empty string: unbounded on that side)
}

func (r *run) isChoice(t *smt.Term) bool {
	_, ok := r.choiceMemo[strings.TrimPrefix(t.Name, "in:")]
	return ok
}

func (r *run) probeSpec(label string) ProbeSpec {
	ps := ProbeSpec{Label: label, Fixed: map[string]string{}, Free: map[string][2]string{}}
	for _, t := range r.inputs {
		name := strings.TrimPrefix(t.Name, "in:")
		if v, ok := r.choiceMemo[name]; ok {
			ps.Fixed[name] = strconv.Itoa(v)
			continue
		}
		lo, hi := "", ""
		if t.Lo != nil {
			lo = t.Lo.String()
		}
		if t.Hi != nil {
			hi = t.Hi.String()
		}
		ps.Free[name] = [2]string{lo, hi}
	}
	return ps
}

type PathResult struct {
	Diversified   int // obligations for which additional small counterexample candidates were requested
	Probes        []ProbeSpec
	OkModel       map[string]string // a model of the path condition of a clean path, when sampled
	Outcome       string // ok, panic, unsupported, unwind, infeasible, steps
	Detail        string
	Decisions     []Decision
	NewWork       [][]Decision
	Findings      []Finding
	AssertsOK     map[string]int // label -> discharged count (unsat)
	AssertsSeen   map[string]int
	Trivial       int // obligations that folded to true by term identity
	SecondOpinion int // obligations unknown to the primary solver, unsat by the second
	Unknown       []string
	Assumes       int
	Observes      map[string]string
	Instrs        int64
	Queries       int
	SolverS       float64
	LabelTime     map[string]float64
	WallS         float64
	InternalAsms  []string
}

// run is the per-path state.
type run struct {
	*Session
	eng             *Engine
	harness         string
	decisions       []Decision
	pos             int
	trace           []Decision
	newWork         [][]Decision
	pc              []*smt.Term
	stats           runStats
	res             *PathResult
	undo            []undoRec
	frozen          map[*value]string
	frozenMaps      []*omap
	inputs          []*smt.Term // named inputs in creation order
	inputSet        map[string]bool
	loopCount       map[interface{}]int
	known           []knownClass // pending classes for the next Assert
	maxInstr        int64
	unwind          int
	pcFeasibleKnown bool
	lastInstr       ssa.Instruction
	lazyAssumes     int
	choiceMemo      map[string]int
	uuidCounter     int
	freshContent    int
	ghostKeys       map[*value]*value   // private key object -> its public half (vrt.BindKeyPair)
	ghostSig        map[*value]ghostSig // JWS contract stubs: signature object -> (signing key, signed payload)
	ghostParsed     value               // what the parser stub yields
	ghostFlags      map[string]value    // named results of contract stubs (e.g. Validate outcome)
	ghostContent    map[*value]*smt.Term // document object -> content token (argument of the MARSHAL function)
	ufApps          map[string][][2]*smt.Term // uninterpreted function -> (argument, result) pairs, for injectivity instances
	strIntern       map[string]int64
}

type knownClass struct {
	id   string
	cond *smt.Term
}

type undoRec struct {
	addr *value
	old  value
	m    *omap
	key  value
	had  bool
}

// pathAbort ends the current path.
type pathAbort struct {
	outcome string
	detail  string
}

func (r *run) abort(outcome, format string, args ...interface{}) {
	panic(pathAbort{outcome, fmt.Sprintf(format, args...)})
}

func (r *run) assertPC(t *smt.Term) {
	if t.IsConst() {
		if !t.B {
			r.abort("infeasible", "path condition false")
		}
		return
	}
	r.pc = append(r.pc, t)
	r.solver.Assert(t)
}

func (r *run) assumeInternal(t *smt.Term, why string) {
	r.res.InternalAsms = append(r.res.InternalAsms, why)
	r.assertPC(t)
}

// checkQuick is a feasibility query under the short branch time limit: "unknown" is then
// treated as feasible by the caller (sound: an infeasible path only adds vacuous work, and
// counterexamples are replayed natively before they are reported).
func (r *run) checkQuick(extra ...*smt.Term) smt.Result {
	ms := r.eng.BranchTimeoutMs
	if ms <= 0 || ms >= r.eng.SolverTimeoutMs {
		return r.check(extra...)
	}
	r.solver.SetTimeout(ms)
	res := r.check(extra...)
	if !r.solver.Dead() {
		r.solver.SetTimeout(r.eng.SolverTimeoutMs)
	}
	return res
}

func (r *run) check(extra ...*smt.Term) smt.Result {
	r.stats.feasQueries++
	res := r.solver.CheckWith(extra...)
	if r.solver.Dead() {
		// solver died (hard timeout): restart and rebuild the scope
		r.recoverSolver()
		return smt.Unknown
	}
	return res
}

func (r *run) recoverSolver() {
	if err := r.solver.Restart(); err != nil {
		r.abort("unsupported", "solver restart failed: %v", err)
	}
	r.solver.Push()
	for _, t := range r.pc {
		r.solver.Assert(t)
	}
}

// branch decides a symbolic condition, forking the exploration when both sides are feasible.
func (i *interpreter) branch(c *smt.Term) bool {
	if c.IsConst() {
		return c.B
	}
	r := i.run
	ctx := r.ctx
	if r.pos < len(r.decisions) {
		d := r.decisions[r.pos]
		r.pos++
		if d.Kind != DBranch {
			r.abort("unsupported", "decision vector mismatch (expected branch)")
		}
		r.trace = append(r.trace, d)
		if d.B {
			r.assertPC(c)
		} else {
			r.assertPC(ctx.Not(c))
		}
		return d.B
	}
	r.stats.forks++
	tStart := time.Now()
	defer func() {
		if r.res.LabelTime == nil {
			r.res.LabelTime = map[string]float64{}
		}
		site := "branch"
		if r.lastInstr != nil {
			site = "branch@" + r.lastInstr.Parent().String() + " " + r.lastInstr.String()
		}
		r.res.LabelTime[site] += time.Since(tStart).Seconds()
	}()
	tRes := r.checkQuick(c)
	if tRes == smt.Unsat {
		r.trace = append(r.trace, Decision{Kind: DBranch, B: false})
		r.pos++
		r.assertPC(ctx.Not(c))
		return false
	}
	fRes := r.checkQuick(ctx.Not(c))
	if fRes == smt.Unsat {
		r.trace = append(r.trace, Decision{Kind: DBranch, B: true})
		r.pos++
		r.assertPC(c)
		return true
	}
	if tRes == smt.Unknown || fRes == smt.Unknown {
		r.stats.unknownFeas++
	}
	alt := append(append([]Decision{}, r.trace...), Decision{Kind: DBranch, B: false})
	r.newWork = append(r.newWork, alt)
	r.trace = append(r.trace, Decision{Kind: DBranch, B: true})
	r.pos++
	r.assertPC(c)
	return true
}

// concretize picks a concrete value for an Int term, forking over alternatives.
func (i *interpreter) concretize(t *smt.Term, what string) *big.Int {
	if v, ok := t.ConstInt(); ok {
		return v
	}
	r := i.run
	ctx := r.ctx
	// small known interval: deterministic ascending enumeration via branches
	if t.Lo != nil && t.Hi != nil {
		span := new(big.Int).Sub(t.Hi, t.Lo)
		if span.IsInt64() && span.Int64() <= 40 {
			for v := new(big.Int).Set(t.Lo); v.Cmp(t.Hi) < 0; v = new(big.Int).Add(v, big1) {
				if i.branch(ctx.Eq(t, ctx.Int(v))) {
					return v
				}
			}
			r.assertPC(ctx.Eq(t, ctx.Int(t.Hi)))
			return t.Hi
		}
	}
	var excl []*big.Int
	if r.pos < len(r.decisions) {
		d := r.decisions[r.pos]
		r.pos++
		if d.Kind != DPick {
			r.abort("unsupported", "decision vector mismatch (expected pick)")
		}
		if !d.Pending {
			r.trace = append(r.trace, d)
			r.assertPC(ctx.Eq(t, ctx.Int(d.V)))
			return d.V
		}
		excl = d.Excl
		for _, e := range excl {
			r.assertPC(ctx.Not(ctx.Eq(t, ctx.Int(e))))
		}
	} else {
		r.pos++
	}
	if len(excl) >= r.eng.MaxPicks {
		r.abort("unwind", "concretisation of %s exceeded %d alternatives", what, r.eng.MaxPicks)
	}
	r.stats.feasQueries++
	r.solver.Push()
	res := r.solver.Check()
	if r.solver.Dead() {
		r.recoverSolver()
		r.abort("unknown", "solver died while concretising %s", what)
	}
	if res != smt.Sat {
		r.solver.Pop()
		if res == smt.Unsat {
			r.abort("infeasible", "no further value for %s", what)
		}
		r.abort("unknown", "solver unknown while concretising %s", what)
	}
	vals, err := r.solver.Values([]*smt.Term{t})
	r.solver.Pop()
	if err != nil {
		r.abort("unknown", "model read failed while concretising %s: %v", what, err)
	}
	var val *big.Rat
	for _, v := range vals {
		val = v
	}
	if val == nil || !val.IsInt() {
		r.abort("unknown", "non-integer model value for %s", what)
	}
	v := new(big.Int).Set(val.Num())
	alt := append(append([]Decision{}, r.trace...), Decision{Kind: DPick, Pending: true, Excl: append(append([]*big.Int{}, excl...), v)})
	r.newWork = append(r.newWork, alt)
	r.trace = append(r.trace, Decision{Kind: DPick, V: v})
	r.assertPC(ctx.Eq(t, ctx.Int(v)))
	return v
}

// choice enumerates 0..n-1 (all alternatives are explored).
func (i *interpreter) choice(name string, n int) int {
	r := i.run
	if n <= 1 {
		return 0
	}
	if v, ok := r.choiceMemo[name]; ok {
		return v // a named choice is an input: asking again gives the same value
	}
	v := i.choice1(name, n)
	if r.choiceMemo == nil {
		r.choiceMemo = map[string]int{}
	}
	r.choiceMemo[name] = v
	return v
}

func (i *interpreter) choice1(name string, n int) int {
	r := i.run
	// A choice is an input variable so that models name it for replay.
	t := r.input(name, smt.SInt, big0, big.NewInt(int64(n-1)))
	if r.pos < len(r.decisions) {
		d := r.decisions[r.pos]
		r.pos++
		if d.Kind != DPick || d.Pending {
			r.abort("unsupported", "decision vector mismatch (expected choice)")
		}
		r.trace = append(r.trace, d)
		r.assertPC(r.ctx.Eq(t, r.ctx.Int(d.V)))
		return int(d.V.Int64())
	}
	r.pos++
	for k := n - 1; k >= 1; k-- {
		alt := append(append([]Decision{}, r.trace...), Decision{Kind: DPick, V: big.NewInt(int64(k))})
		r.newWork = append(r.newWork, alt)
	}
	r.trace = append(r.trace, Decision{Kind: DPick, V: big.NewInt(0)})
	r.assertPC(r.ctx.Eq(t, r.ctx.Int64(0)))
	return 0
}

func (r *run) input(name string, s smt.Sort, lo, hi *big.Int) *smt.Term {
	t := r.ctx.Var("in:"+name, s, lo, hi)
	t.Input = true
	if !r.inputSet[name] {
		r.inputSet[name] = true
		r.inputs = append(r.inputs, t)
	}
	return t
}

// model returns the values of the named inputs under the current PC plus extra.
func (r *run) model(extra ...*smt.Term) (map[string]string, smt.Result) {
	r.stats.feasQueries++
	// Prefer counterexamples in which float operations are exact: they are the
	// ones that reproduce natively (the float model is a relaxation).
	var hints []*smt.Term
	seen := map[int]bool{}
	for _, t := range append(append([]*smt.Term{}, r.pc...), extra...) {
		for _, w := range t.Witnesses() {
			if w.Hint != nil && !seen[w.ID] {
				seen[w.ID] = true
				hints = append(hints, w.Hint)
			}
		}
	}
	if len(hints) > 0 {
		if m, res := r.modelWith(append(append([]*smt.Term{}, extra...), hints...)); res == smt.Sat {
			return m, res
		}
	}
	return r.modelWith(extra)
}

func (r *run) modelWith(extra []*smt.Term) (map[string]string, smt.Result) {
	r.solver.Push()
	for _, e := range extra {
		r.solver.Assert(e)
	}
	res := r.solver.Check()
	if r.solver.Dead() {
		r.recoverSolver()
		return nil, smt.Unknown
	}
	if res != smt.Sat {
		r.solver.Pop()
		return nil, res
	}
	vals, err := r.solver.Values(r.inputs)
	if r.solver.Dead() {
		r.recoverSolver()
		return nil, smt.Unknown
	}
	r.solver.Pop()
	if err != nil {
		return nil, smt.Unknown
	}
	out := map[string]string{}
	for k, v := range vals {
		name := strings.TrimPrefix(k, "in:")
		if v.IsInt() {
			out[name] = v.Num().String()
		} else {
			out[name] = v.String()
		}
	}
	return out, smt.Sat
}

func (r *run) finding(kind, label, detail string, model map[string]string, knownID string) {
	r.res.Findings = append(r.res.Findings, Finding{
		Harness: r.harness, Label: label, Kind: kind, Model: model,
		Decs: DecisionsString(r.trace), Detail: detail, KnownID: knownID,
	})
}

// obligation checks cond under the path condition.
func (i *interpreter) obligation(cond *smt.Term, label string) {
	r := i.run
	ctx := r.ctx
	r.res.AssertsSeen[label]++
	classes := r.known
	r.known = nil
	if cond.IsConst() && cond.B {
		r.res.AssertsOK[label]++
		r.res.Trivial++
		return
	}
	if !r.eng.deadline.IsZero() && time.Now().After(r.eng.deadline.Add(30*time.Second)) {
		// harness budget exhausted: do not start further solver work on this path
		r.res.Unknown = append(r.res.Unknown, label+" (time budget)")
		r.abort("steps", "harness time budget exhausted during path")
	}
	tStart := time.Now()
	defer func() {
		if r.res.LabelTime == nil {
			r.res.LabelTime = map[string]float64{}
		}
		r.res.LabelTime[label] += time.Since(tStart).Seconds()
	}()
	neg := ctx.Not(cond)
	var notK []*smt.Term
	allKnown := false
	for _, k := range classes {
		if !r.eng.KnownOpen[k.id] {
			continue
		}
		if k.cond.IsConst() && !k.cond.B {
			continue // the class cannot hold on this path
		}
		if k.cond.IsConst() && k.cond.B {
			allKnown = true // every failure on this path belongs to the class
		}
		notK = append(notK, ctx.Not(k.cond))
		if r.eng.knownWitnessed(k.id, 0) >= 4 || r.eng.knownWitnessed(k.id+"#tries#"+label, 1) > 60 {
			continue // the class has been witnessed (or tried) enough in this run; it stays excluded from the main query
		}
		m, res := r.model(neg, k.cond)
		if res == smt.Sat {
			r.eng.knownWitnessed(k.id, 1)
			r.finding("known", label, "", m, k.id)
		} else if res == smt.Unknown {
			r.res.Unknown = append(r.res.Unknown, label+" (known class "+k.id+")")
		}
	}
	var m map[string]string
	res := smt.Unsat
	if !allKnown {
		m, res = r.model(append([]*smt.Term{neg}, notK...)...)
	}
	if res == smt.Unknown {
		// second opinion: a fresh z3 5.1.0 process, one-shot, longer time limit
		if r.secondOpinion(append([]*smt.Term{neg}, notK...)) == smt.Unsat {
			res = smt.Unsat
			r.res.SecondOpinion++
		}
	}
	switch res {
	case smt.Unsat:
		r.res.AssertsOK[label]++
	case smt.Sat:
		r.finding("assert", label, "", m, "")
		// further candidates with small operands: where the encoding is a relaxation (float64), only some of the
		// candidates fail natively; small ones are the most likely to be reproducible and the easiest to read
		if r.res.Diversified < 3 {
			r.res.Diversified++
			for _, bound := range []int64{100, 1000, 100000} {
				var small []*smt.Term
				for _, t := range r.inputs {
					if t.Sort != smt.SInt || r.isChoice(t) {
						continue
					}
					small = append(small, ctx.Le(ctx.Int64(-bound), t), ctx.Le(t, ctx.Int64(bound)))
				}
				if len(small) == 0 {
					break
				}
				seen := map[string]bool{fmt.Sprint(m): true}
				for k := 0; k < 8; k++ {
					m2, res2 := r.modelWith(append(append([]*smt.Term{neg}, notK...), small...))
					if res2 != smt.Sat || seen[fmt.Sprint(m2)] {
						break
					}
					seen[fmt.Sprint(m2)] = true
					r.finding("assert", label, "", m2, "")
					// block this assignment of the free inputs
					var diff []*smt.Term
					for _, t := range r.inputs {
						if t.Sort != smt.SInt || r.isChoice(t) {
							continue
						}
						name := strings.TrimPrefix(t.Name, "in:")
						if v, ok := new(big.Int).SetString(m2[name], 10); ok {
							diff = append(diff, ctx.Not(ctx.Eq(t, ctx.Int(v))))
						}
					}
					if len(diff) == 0 {
						break
					}
					small = append(small, ctx.Or(diff...))
				}
			}
		}
	default:
		r.res.Unknown = append(r.res.Unknown, label)
		r.res.Probes = append(r.res.Probes, r.probeSpec(label))
	}
	if res != smt.Unsat || len(notK) > 0 {
		// continue only where the assertion holds
		if cond.IsConst() {
			r.abort("ok", "assertion %s failed concretely; path ends", label)
		}
		if r.checkQuick(cond) == smt.Unsat {
			r.abort("ok", "assertion %s fails on the whole path; path ends", label)
		}
	}
	r.assertPC(cond)
}

func sortedKeys(m map[string]int) []string {
	var ks []string
	for k := range m {
		ks = append(ks, k)
	}
	sort.Strings(ks)
	return ks
}

var dumpSeq int

// secondOpinion re-asks a query (path condition plus extra) of another solver from scratch.
func (r *run) secondOpinion(extra []*smt.Term) smt.Result {
	if len(r.eng.SecondSolverArgv) == 0 {
		return smt.Unknown
	}
	logp := ""
	if r.eng.LogDir != "" {
		dumpSeq++
		logp = fmt.Sprintf("%s/second-%d.smt2", r.eng.LogDir, dumpSeq)
	}
	s2, err := smt.NewSolver(r.ctx, "second", r.eng.SecondSolverArgv, r.eng.SolverTimeoutMs*3, logp)
	if err != nil {
		return smt.Unknown
	}
	defer s2.Close()
	for _, t := range r.pc {
		s2.Assert(t)
	}
	for _, t := range extra {
		s2.Assert(t)
	}
	res := s2.Check()
	if len(s2.Errors) > 0 {
		return smt.Unknown
	}
	return res
}

type ghostSig struct {
	key     *value
	payload *value // pointer to the struct that was signed (a private copy)
}
