package interp

// Regular expressions over strings with symbolic bytes: the pattern (always
// concrete) is compiled with regexp/syntax and the NFA is simulated position by
// position, the thread set being a vector of Bool terms.

import (
	"fmt"
	"go/types"
	"regexp"
	"regexp/syntax"
	"sort"
	"sync"
	"unicode"

	"gsx/smt"
)

type compiledRe struct {
	prog  *syntax.Prog
	ncap  int
	start int
}

var (
	reCache = map[string]*compiledRe{}
	reMu    sync.Mutex
)

func compileRe(pattern string) *compiledRe {
	reMu.Lock()
	defer reMu.Unlock()
	if c, ok := reCache[pattern]; ok {
		return c
	}
	re, err := syntax.Parse(pattern, syntax.Perl)
	if err != nil {
		unsup("regexp parse %q: %v", pattern, err)
	}
	ncap := re.MaxCap()
	re = re.Simplify()
	prog, err := syntax.Compile(re)
	if err != nil {
		unsup("regexp compile %q: %v", pattern, err)
	}
	c := &compiledRe{prog: prog, ncap: ncap, start: prog.Start}
	reCache[pattern] = c
	return c
}

// runeCond is the condition under which byte b (a term in 0..255) matches inst.
func (i *interpreter) runeCond(inst *syntax.Inst, b *smt.Term) *smt.Term {
	c := i.run.ctx
	maybeHigh := !(b.Hi != nil && b.Hi.Int64() < 0x80)
	ascii := c.Lt(b, c.Int64(0x80))
	switch inst.Op {
	case syntax.InstRuneAny:
		if maybeHigh {
			unsup("regexp '.' on possibly non-ASCII symbolic byte")
		}
		return c.True
	case syntax.InstRuneAnyNotNL:
		if maybeHigh {
			unsup("regexp '.' on possibly non-ASCII symbolic byte")
		}
		return c.Not(c.Eq(b, c.Int64('\n')))
	}
	runes := inst.Rune
	fold := syntax.Flags(inst.Arg)&syntax.FoldCase != 0
	var alts []*smt.Term
	add := func(lo, hi rune) {
		if lo > 0x7f {
			if maybeHigh {
				unsup("regexp class with non-ASCII runes on possibly non-ASCII symbolic byte")
			}
			return
		}
		if hi > 0x7f {
			if maybeHigh {
				unsup("regexp class with non-ASCII runes on possibly non-ASCII symbolic byte")
			}
			hi = 0x7f
		}
		if lo == hi {
			alts = append(alts, c.Eq(b, c.Int64(int64(lo))))
		} else {
			alts = append(alts, c.And(c.Le(c.Int64(int64(lo)), b), c.Le(b, c.Int64(int64(hi)))))
		}
	}
	if len(runes) == 1 {
		r := runes[0]
		add(r, r)
		if fold {
			for r1 := unicode.SimpleFold(r); r1 != r; r1 = unicode.SimpleFold(r1) {
				add(r1, r1)
			}
		}
	} else {
		for k := 0; k+1 < len(runes); k += 2 {
			add(runes[k], runes[k+1])
		}
	}
	return c.And(ascii, c.Or(alts...))
}

func isWordCond(i *interpreter, b *smt.Term) *smt.Term {
	c := i.run.ctx
	in := func(lo, hi int64) *smt.Term { return c.And(c.Le(c.Int64(lo), b), c.Le(b, c.Int64(hi))) }
	return c.Or(in('0', '9'), in('A', 'Z'), in('a', 'z'), c.Eq(b, c.Int64('_')))
}

// emptyCond is the (possibly symbolic) truth of the empty-width assertion at position pos.
func (i *interpreter) emptyCond(op syntax.EmptyOp, bs []*smt.Term, pos int) *smt.Term {
	c := i.run.ctx
	n := len(bs)
	res := c.True
	if op&syntax.EmptyBeginText != 0 && pos != 0 {
		return c.False
	}
	if op&syntax.EmptyEndText != 0 && pos != n {
		return c.False
	}
	if op&syntax.EmptyBeginLine != 0 && pos != 0 {
		res = c.And(res, c.Eq(bs[pos-1], c.Int64('\n')))
	}
	if op&syntax.EmptyEndLine != 0 && pos != n {
		res = c.And(res, c.Eq(bs[pos], c.Int64('\n')))
	}
	if op&(syntax.EmptyWordBoundary|syntax.EmptyNoWordBoundary) != 0 {
		before, after := c.False, c.False
		if pos > 0 {
			before = isWordCond(i, bs[pos-1])
		}
		if pos < n {
			after = isWordCond(i, bs[pos])
		}
		boundary := c.Not(c.Eq(before, after))
		if op&syntax.EmptyWordBoundary != 0 {
			res = c.And(res, boundary)
		}
		if op&syntax.EmptyNoWordBoundary != 0 {
			res = c.And(res, c.Not(boundary))
		}
	}
	return res
}

// matchTerm returns the Bool term "pattern matches somewhere in s" (regexp.MatchString semantics).
func (i *interpreter) matchTerm(pattern string, s value) *smt.Term {
	c := i.run.ctx
	cr := compileRe(pattern)
	raw := strBytes(s)
	bs := make([]*smt.Term, len(raw))
	for k, b := range raw {
		bs[k] = i.term(b)
	}
	n := len(bs)
	prog := cr.prog
	matched := c.False
	cur := map[int]*smt.Term{}
	var addThread func(set map[int]*smt.Term, pc int, cond *smt.Term, pos int)
	addThread = func(set map[int]*smt.Term, pc int, cond *smt.Term, pos int) {
		if cond == c.False {
			return
		}
		old, ok := set[pc]
		nw := cond
		if ok {
			nw = c.Or(old, cond)
			if nw == old {
				return
			}
		}
		set[pc] = nw
		inst := &prog.Inst[pc]
		switch inst.Op {
		case syntax.InstAlt, syntax.InstAltMatch:
			addThread(set, int(inst.Out), cond, pos)
			addThread(set, int(inst.Arg), cond, pos)
		case syntax.InstNop, syntax.InstCapture:
			addThread(set, int(inst.Out), cond, pos)
		case syntax.InstEmptyWidth:
			addThread(set, int(inst.Out), c.And(cond, i.emptyCond(syntax.EmptyOp(inst.Arg), bs, pos)), pos)
		}
	}
	for pos := 0; pos <= n; pos++ {
		// unanchored search: a new thread may start at every position
		addThread(cur, cr.start, c.True, pos)
		if t, ok := cur[matchPC(prog)]; ok {
			matched = c.Or(matched, t)
		}
		for pc, t := range cur {
			if prog.Inst[pc].Op == syntax.InstMatch {
				matched = c.Or(matched, t)
			}
		}
		if pos == n {
			break
		}
		next := map[int]*smt.Term{}
		// deterministic order
		for pc := 0; pc < len(prog.Inst); pc++ {
			t, ok := cur[pc]
			if !ok {
				continue
			}
			inst := &prog.Inst[pc]
			switch inst.Op {
			case syntax.InstRune, syntax.InstRune1, syntax.InstRuneAny, syntax.InstRuneAnyNotNL:
				addThread(next, int(inst.Out), c.And(t, i.runeCond(inst, bs[pos])), pos+1)
			}
		}
		cur = next
	}
	return matched
}

// fixedShape: for a pattern of the form ^...$ whose pieces all have a fixed width, the [start,end) offsets of
// the whole match and of every capture group, and the total width.
func fixedShape(pattern string) (offs [][2]int, total int, ok bool) {
	re, err := syntax.Parse(pattern, syntax.Perl)
	if err != nil {
		return nil, 0, false
	}
	ncap := re.MaxCap()
	offs = make([][2]int, ncap+1)
	if re.Op != syntax.OpConcat || len(re.Sub) < 2 || re.Sub[0].Op != syntax.OpBeginText || re.Sub[len(re.Sub)-1].Op != syntax.OpEndText {
		return nil, 0, false
	}
	good := true
	var walk func(n *syntax.Regexp, pos int, insideRepeat bool) int
	walk = func(n *syntax.Regexp, pos int, insideRepeat bool) int {
		switch n.Op {
		case syntax.OpEmptyMatch, syntax.OpBeginText, syntax.OpEndText:
			return 0
		case syntax.OpLiteral:
			if n.Flags&syntax.FoldCase != 0 {
				for _, r := range n.Rune {
					if r > 0x7f {
						good = false
					}
				}
			}
			for _, r := range n.Rune {
				if r > 0x7f {
					good = false
				}
			}
			return len(n.Rune)
		case syntax.OpCharClass, syntax.OpAnyCharNotNL, syntax.OpAnyChar:
			return 1
		case syntax.OpCapture:
			if insideRepeat {
				good = false
				return 0
			}
			w := walk(n.Sub[0], pos, false)
			offs[n.Cap] = [2]int{pos, pos + w}
			return w
		case syntax.OpConcat:
			w := 0
			for _, sub := range n.Sub {
				w += walk(sub, pos+w, insideRepeat)
			}
			return w
		case syntax.OpRepeat:
			if n.Min != n.Max {
				good = false
				return 0
			}
			return n.Min * walk(n.Sub[0], pos, true)
		case syntax.OpAlternate:
			w := -1
			for _, sub := range n.Sub {
				sw := walk(sub, pos, true)
				if w >= 0 && sw != w {
					good = false
				}
				w = sw
			}
			return w
		}
		good = false
		return 0
	}
	total = walk(re, 0, false)
	if !good {
		return nil, 0, false
	}
	offs[0] = [2]int{0, total}
	return offs, total, true
}

// deleteMatches: ReplaceAllString(s, "") on a string with symbolic bytes, for two pattern shapes:
//   - a single character class, optionally repeated with + or *: every matching byte disappears (one fork per
//     symbolic byte);
//   - an alternation of literals anchored at the end, (A|B|C)$: the longest literal that is a suffix disappears.
func (i *interpreter) deleteMatches(pattern string, s value) value {
	re, err := syntax.Parse(pattern, syntax.Perl)
	if err != nil {
		unsup("regexp parse %q: %v", pattern, err)
	}
	bs := strBytes(s)
	c := i.run.ctx
	// shape 1
	cls := re
	if cls.Op == syntax.OpPlus || cls.Op == syntax.OpStar {
		cls = cls.Sub[0]
	}
	if cls.Op == syntax.OpCharClass || (cls.Op == syntax.OpLiteral && len(cls.Rune) == 1) {
		inst := &syntax.Inst{Op: syntax.InstRune, Rune: cls.Rune}
		if cls.Op == syntax.OpLiteral {
			inst = &syntax.Inst{Op: syntax.InstRune1, Rune: cls.Rune}
		}
		var out []value
		for _, b := range bs {
			if i.branch(i.runeCond(inst, i.term(b))) {
				continue
			}
			out = append(out, b)
		}
		return normStr(out)
	}
	// shape 2
	if re.Op == syntax.OpConcat && len(re.Sub) == 2 && re.Sub[1].Op == syntax.OpEndText {
		alt := re.Sub[0]
		if alt.Op == syntax.OpCapture {
			alt = alt.Sub[0]
		}
		var lits []string
		ok := true
		switch alt.Op {
		case syntax.OpLiteral:
			lits = []string{string(alt.Rune)}
		case syntax.OpAlternate:
			for _, a := range alt.Sub {
				if a.Op != syntax.OpLiteral || a.Flags&syntax.FoldCase != 0 {
					ok = false
					break
				}
				lits = append(lits, string(a.Rune))
			}
		case syntax.OpConcat:
			// the parser factors common suffixes / prefixes of an alternation: fall back to the literals of the source text
			ok = false
		default:
			ok = false
		}
		if !ok {
			// (MWST|TVA|IVA)$ is parsed as (?:MWST|[IT]VA): recover the literals from the pattern text when it is a plain
			// parenthesised alternation of alphanumerics
			if m := regexp.MustCompile(`^\(([A-Za-z0-9|]+)\)\$$`).FindStringSubmatch(pattern); m != nil {
				lits, ok = nil, true
				for _, l := range regexpSplit(m[1]) {
					lits = append(lits, l)
				}
			}
		}
		if ok && len(lits) > 0 {
			sort.SliceStable(lits, func(a, b int) bool { return len(lits[a]) > len(lits[b]) })
			for _, l := range lits {
				if len(l) > len(bs) || len(l) == 0 {
					continue
				}
				tail := bs[len(bs)-len(l):]
				conj := make([]*smt.Term, len(l))
				for k := range tail {
					conj[k] = c.Eq(i.term(tail[k]), c.Int64(int64(l[k])))
				}
				if i.branch(c.And(conj...)) {
					return normStr(append([]value(nil), bs[:len(bs)-len(l)]...))
				}
			}
			return normStr(append([]value(nil), bs...))
		}
	}
	unsup("regexp ReplaceAllString on a symbolic string: pattern shape not supported: %s", pattern)
	return nil
}

func regexpSplit(s string) []string {
	var out []string
	cur := ""
	for _, r := range s {
		if r == '|' {
			out = append(out, cur)
			cur = ""
			continue
		}
		cur += string(r)
	}
	return append(out, cur)
}

func matchPC(p *syntax.Prog) int {
	for k := range p.Inst {
		if p.Inst[k].Op == syntax.InstMatch {
			return k
		}
	}
	return -1
}

// regexpPattern extracts the pattern carried by an interpreter *regexp.Regexp object.
func regexpPatternAt(fr *frame, v value) string {
	p, ok := v.(*value)
	if !ok || p == nil {
		where := ""
		if fr != nil && fr.caller != nil && fr.caller.fn != nil {
			where = " (nil *regexp.Regexp used in " + fr.caller.fn.String() + ": package initialiser not run?)"
		}
		unsup("regexp receiver is not an object carrying its pattern%s", where)
	}
	st, ok := (*p).(structure)
	if !ok || len(st) == 0 {
		unsup("regexp receiver has unexpected shape")
	}
	s, ok := st[0].(string)
	if !ok {
		unsup("regexp receiver without pattern string")
	}
	return s
}

func (i *interpreter) regexpType() types.Type {
	pkg := i.prog.ImportedPackage("regexp")
	if pkg == nil {
		unsup("regexp package not loaded")
	}
	return pkg.Type("Regexp").Type()
}

func (i *interpreter) newRegexpObject(pattern string) value {
	if _, err := regexp.Compile(pattern); err != nil {
		panic(targetPanic{"regexp: Compile(" + pattern + "): " + err.Error()})
	}
	st := zero(i.regexpType()).(structure)
	st[0] = pattern
	var cell value = st
	return &cell
}

func init() {
	intrinsics["regexp.MustCompile"] = func(fr *frame, args []value) value {
		s, ok := args[0].(string)
		if !ok {
			unsup("regexp.MustCompile of a non-constant pattern")
		}
		return fr.i.newRegexpObject(s)
	}
	intrinsics["regexp.Compile"] = func(fr *frame, args []value) value {
		s, ok := args[0].(string)
		if !ok {
			unsup("regexp.Compile of a non-constant pattern")
		}
		if _, err := regexp.Compile(s); err != nil {
			return tuple{(*value)(nil), fr.i.opaqueError("regexp: "+err.Error(), iface{})}
		}
		return tuple{fr.i.newRegexpObject(s), iface{}}
	}
	intrinsics["(*regexp.Regexp).MatchString"] = func(fr *frame, args []value) value {
		pat := regexpPatternAt(fr, args[0])
		if s, ok := args[1].(string); ok {
			return regexp.MustCompile(pat).MatchString(s)
		}
		return fr.i.mkval(fr.i.matchTerm(pat, args[1]), types.Bool)
	}
	intrinsics["(*regexp.Regexp).Match"] = func(fr *frame, args []value) value {
		pat := regexpPatternAt(fr, args[0])
		s := normStr(args[1].([]value))
		if cs, ok := s.(string); ok {
			return regexp.MustCompile(pat).MatchString(cs)
		}
		return fr.i.mkval(fr.i.matchTerm(pat, s), types.Bool)
	}
	intrinsics["(*regexp.Regexp).ReplaceAllString"] = func(fr *frame, args []value) value {
		pat := regexpPatternAt(fr, args[0])
		src, ok1 := args[1].(string)
		repl, ok2 := args[2].(string)
		if ok1 && ok2 {
			return regexp.MustCompile(pat).ReplaceAllString(src, repl)
		}
		if !ok2 || repl != "" {
			unsup("regexp ReplaceAllString on a symbolic string with a non-empty replacement")
		}
		return fr.i.deleteMatches(pat, args[1])
	}
	intrinsics["(*regexp.Regexp).SubexpNames"] = func(fr *frame, args []value) value {
		names := regexp.MustCompile(regexpPatternAt(fr, args[0])).SubexpNames()
		out := make([]value, len(names))
		for k := range names {
			out[k] = names[k]
		}
		return out
	}
	intrinsics["(*regexp.Regexp).FindStringSubmatch"] = func(fr *frame, args []value) value {
		pat := regexpPatternAt(fr, args[0])
		src, ok := args[1].(string)
		if !ok {
			// symbolic subject: supported for anchored patterns in which every piece has a fixed width, so that
			// the group boundaries do not depend on the bytes
			offs, total, fixed := fixedShape(pat)
			if !fixed {
				unsup("regexp FindStringSubmatch on a symbolic string with a pattern that is not anchored and fixed-width: %s", pat)
			}
			bs := strBytes(args[1])
			if len(bs) != total {
				return []value(nil)
			}
			if !fr.i.branch(fr.i.matchTerm(pat, args[1])) {
				return []value(nil)
			}
			out := make([]value, len(offs))
			for k, o := range offs {
				out[k] = normStr(append([]value(nil), bs[o[0]:o[1]]...))
			}
			return out
		}
		m := regexp.MustCompile(pat).FindStringSubmatch(src)
		if m == nil {
			return []value(nil)
		}
		out := make([]value, len(m))
		for k := range m {
			out[k] = m[k]
		}
		return out
	}
	intrinsics["(*regexp.Regexp).String"] = func(fr *frame, args []value) value {
		return regexpPatternAt(fr, args[0])
	}
	intrinsics["regexp.MatchString"] = func(fr *frame, args []value) value {
		pat, ok := args[0].(string)
		if !ok {
			unsup("regexp.MatchString with symbolic pattern")
		}
		if s, ok := args[1].(string); ok {
			m, err := regexp.MatchString(pat, s)
			if err != nil {
				return tuple{false, fr.i.opaqueError(err.Error(), iface{})}
			}
			return tuple{m, iface{}}
		}
		return tuple{fr.i.mkval(fr.i.matchTerm(pat, args[1]), types.Bool), iface{}}
	}
	intrinsics[VrtPath+".MatchesPattern"] = func(fr *frame, args []value) value {
		pat, ok := args[1].(string)
		if !ok {
			unsup("vrt.MatchesPattern with symbolic pattern")
		}
		if s, ok := args[0].(string); ok {
			return regexp.MustCompile(pat).MatchString(s)
		}
		return fr.i.mkval(fr.i.matchTerm(pat, args[0]), types.Bool)
	}
	_ = fmt.Sprintf
}
