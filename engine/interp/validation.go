package interp

// Model of the reflective parts of github.com/invopop/validation v0.7.0 (a dependency, not gobl code):
// the struct walker (ValidateStruct[WithContext]), the value dispatcher (Validate[WithContext]) and the
// reflection leaves of util.go. The rules themselves (Required, In, Length, Match, When, By, ... and every gobl
// rule) and every Validate / ValidateWithContext method run as real SSA code. The model follows the library
// source step by step: rules in order, first failing rule ends a field, then the value's own
// ValidateWithContext / Validate, then elements of maps and slices, errors collected per field under its
// json name.

import (
	"go/token"
	"go/types"
	"reflect"
	"sort"
	"strconv"
	"strings"

	"golang.org/x/tools/go/ssa"
)

const valPath = "github.com/invopop/validation"

func (i *interpreter) methodOf(T types.Type, name string) *ssa.Function {
	if T == nil {
		return nil
	}
	ms := i.prog.MethodSets.MethodSet(T)
	for k := 0; k < ms.Len(); k++ {
		sel := ms.At(k)
		if sel.Obj().Name() == name {
			return i.prog.MethodValue(sel)
		}
	}
	return nil
}

func (i *interpreter) valErrorsType() types.Type {
	pkg := i.prog.ImportedPackage(valPath)
	if pkg == nil {
		unsup("validation package not loaded")
	}
	return pkg.Type("Errors").Type()
}

func isNilErr(v value) bool {
	e, ok := v.(iface)
	return ok && e.t == nil
}

// valIsNil: reflect Ptr/Interface nil test of the library (typed nil pointers, nil maps/slices are *not* nil here
// unless the static kind is pointer or interface).
func valIsNilPtr(v iface) bool {
	if v.t == nil {
		return true
	}
	if _, ok := v.t.Underlying().(*types.Pointer); ok {
		p, _ := v.v.(*value)
		return p == nil
	}
	return false
}

func (i *interpreter) valValidate(fr *frame, ctx value, withCtx bool, val iface, rules []value) value {
	for _, rv := range rules {
		rule, ok := rv.(iface)
		if !ok || rule.t == nil {
			unsup("validation: nil rule")
		}
		if n, isNamed := rule.t.(*types.Named); isNamed && n.Obj().Name() == "skipRule" && n.Obj().Pkg().Path() == valPath {
			if st, ok := rule.v.(structure); ok && len(st) > 0 {
				if b, isB := st[0].(bool); isB && b {
					return iface{}
				}
			}
			continue
		}
		var err value
		if fn := i.methodOf(rule.t, "ValidateWithContext"); fn != nil && withCtx {
			err = call(i, fr, token.NoPos, fn, []value{rule.v, ctx, val})
		} else if fn := i.methodOf(rule.t, "Validate"); fn != nil {
			err = call(i, fr, token.NoPos, fn, []value{rule.v, val})
		} else {
			unsup("validation: rule type %s has no Validate method", rule.t)
		}
		if !isNilErr(err) {
			return err
		}
	}
	return i.valDispatch(fr, ctx, withCtx, val)
}

// valDispatch: steps 2.. of validation.Validate[WithContext]
func (i *interpreter) valDispatch(fr *frame, ctx value, withCtx bool, val iface) value {
	if val.t == nil || valIsNilPtr(val) {
		return iface{}
	}
	if withCtx {
		if fn := i.methodOf(val.t, "ValidateWithContext"); fn != nil && isValidatableCtx(fn) {
			return call(i, fr, token.NoPos, fn, []value{val.v, ctx})
		}
	}
	if fn := i.methodOf(val.t, "Validate"); fn != nil && isValidatable(fn) {
		return call(i, fr, token.NoPos, fn, []value{val.v})
	}
	switch U := val.t.Underlying().(type) {
	case *types.Map:
		m, _ := val.v.(*omap)
		if m == nil {
			return iface{}
		}
		cm := withCtx && i.elemHas(U.Elem(), "ValidateWithContext")
		if !cm && !i.elemHas(U.Elem(), "Validate") {
			return iface{}
		}
		errs := makeMap(types.Typ[types.String], 0).(*omap)
		for _, e := range m.entries {
			if !e.live {
				continue
			}
			ev := i.asIface(U.Elem(), e.val)
			if ev.t == nil {
				continue
			}
			var err value
			if cm {
				err = call(i, fr, token.NoPos, i.methodOf(ev.t, "ValidateWithContext"), []value{ev.v, ctx})
			} else {
				err = call(i, fr, token.NoPos, i.methodOf(ev.t, "Validate"), []value{ev.v})
			}
			if !isNilErr(err) {
				errs.insert(i, keyString(e.key), err)
			}
		}
		if errs.len() > 0 {
			return iface{t: i.valErrorsType(), v: errs}
		}
		return iface{}
	case *types.Slice, *types.Array:
		var elemT types.Type
		var elems []value
		switch U := U.(type) {
		case *types.Slice:
			elemT = U.Elem()
			elems, _ = val.v.([]value)
		case *types.Array:
			elemT = U.Elem()
			elems = []value(val.v.(array))
		}
		cm := withCtx && i.elemHas(elemT, "ValidateWithContext")
		if !cm && !i.elemHas(elemT, "Validate") {
			return iface{}
		}
		errs := makeMap(types.Typ[types.String], 0).(*omap)
		for k, e := range elems {
			ev := i.asIface(elemT, e)
			if ev.t == nil || valIsNilPtr(ev) {
				continue
			}
			var err value
			if cm {
				err = call(i, fr, token.NoPos, i.methodOf(ev.t, "ValidateWithContext"), []value{ev.v, ctx})
			} else {
				err = call(i, fr, token.NoPos, i.methodOf(ev.t, "Validate"), []value{ev.v})
			}
			if !isNilErr(err) {
				errs.insert(i, strconv.Itoa(k), err)
			}
		}
		if errs.len() > 0 {
			return iface{t: i.valErrorsType(), v: errs}
		}
		return iface{}
	case *types.Pointer:
		p := val.v.(*value)
		return i.valValidate(fr, ctx, withCtx, i.asIface(U.Elem(), *p), nil)
	case *types.Interface:
		return iface{}
	}
	return iface{}
}

func isValidatable(fn *ssa.Function) bool {
	s := fn.Signature
	return s.Params().Len() == 0 && s.Results().Len() == 1
}

func isValidatableCtx(fn *ssa.Function) bool {
	s := fn.Signature
	return s.Params().Len() == 1 && s.Results().Len() == 1
}

// elemHas: does the element type implement the interface (statically, as reflect's Type.Implements)?
func (i *interpreter) elemHas(T types.Type, name string) bool {
	if _, ok := T.Underlying().(*types.Interface); ok {
		it := T.Underlying().(*types.Interface)
		for k := 0; k < it.NumMethods(); k++ {
			if it.Method(k).Name() == name {
				return true
			}
		}
		return false
	}
	return i.methodOf(T, name) != nil
}

// asIface: the value of static type T as an interface{} value (reflect's Value.Interface()).
func (i *interpreter) asIface(T types.Type, v value) iface {
	if _, ok := T.Underlying().(*types.Interface); ok {
		if iv, ok := v.(iface); ok {
			return iv
		}
		return iface{}
	}
	return iface{t: T, v: v}
}

func keyString(k value) string {
	switch k := k.(type) {
	case string:
		return k
	}
	return toString(k)
}

func (i *interpreter) valStruct(fr *frame, ctx value, sp iface, fields []value) value {
	if sp.t == nil {
		unsup("validation: ValidateStruct of a nil interface")
	}
	pt, ok := sp.t.Underlying().(*types.Pointer)
	if !ok {
		unsup("validation: ValidateStruct of a non-pointer")
	}
	p, _ := sp.v.(*value)
	if p == nil {
		return iface{}
	}
	stT, ok := pt.Elem().Underlying().(*types.Struct)
	if !ok {
		unsup("validation: ValidateStruct of a pointer to a non-struct")
	}
	st := (*p).(structure)
	errs := makeMap(types.Typ[types.String], 0).(*omap)
	for _, f := range fields {
		frp, _ := f.(*value)
		if frp == nil {
			unsup("validation: nil FieldRules")
		}
		frs := (*frp).(structure) // {fieldPtr interface{}, rules []Rule}
		fp, ok := frs[0].(iface)
		if !ok || fp.t == nil {
			unsup("validation: field pointer missing")
		}
		fptr, _ := fp.v.(*value)
		ft, tag := i.valFindField(stT, st, fptr)
		if ft == nil {
			unsup("validation: field pointer not found in struct %s", pt.Elem())
		}
		rules, _ := frs[1].([]value)
		val := i.asIface(ft.Type(), *fptr)
		err := i.valValidate(fr, ctx, true, val, rules)
		if isNilErr(err) {
			continue
		}
		if e, ok := err.(iface); ok && ft.Anonymous() && sameType(e.t, i.valErrorsType()) {
			em := e.v.(*omap)
			for _, ent := range em.entries {
				if ent.live {
					errs.insert(i, ent.key, ent.val)
				}
			}
			continue
		}
		name := ft.Name()
		if tag := reflect.StructTag(tag).Get("json"); tag != "" && tag != "-" {
			if cps := strings.SplitN(tag, ",", 2); cps[0] != "" {
				name = cps[0]
			}
		}
		errs.insert(i, name, err)
	}
	if errs.len() > 0 {
		return iface{t: i.valErrorsType(), v: errs}
	}
	return iface{}
}

// valFindField: findStructField of the library (fields from last to first, anonymous structs searched recursively).
func (i *interpreter) valFindField(stT *types.Struct, st structure, fptr *value) (*types.Var, string) {
	for k := len(st) - 1; k >= 0; k-- {
		f := stT.Field(k)
		if &st[k] == fptr {
			return f, stT.Tag(k)
		}
		if f.Anonymous() {
			ft := f.Type()
			cell := st[k]
			if p, ok := ft.Underlying().(*types.Pointer); ok {
				pv, _ := cell.(*value)
				if pv == nil {
					continue
				}
				ft, cell = p.Elem(), *pv
			}
			if inner, ok := ft.Underlying().(*types.Struct); ok {
				if is, ok := cell.(structure); ok {
					if v, tag := i.valFindField(inner, is, fptr); v != nil {
						return v, tag
					}
				}
			}
		}
	}
	return nil, ""
}

// valIndirect / valIsEmpty: util.go
func (i *interpreter) valIndirect(fr *frame, v iface) (iface, bool) {
	if v.t == nil {
		return iface{}, true
	}
	switch U := v.t.Underlying().(type) {
	case *types.Pointer:
		p, _ := v.v.(*value)
		if p == nil {
			return iface{}, true
		}
		return i.valIndirect(fr, i.asIface(U.Elem(), *p))
	case *types.Slice:
		if s, ok := v.v.([]value); ok && s == nil {
			return iface{}, true
		}
	case *types.Map:
		if m, _ := v.v.(*omap); m == nil {
			return iface{}, true
		}
	case *types.Signature:
		if v.v == nil {
			return iface{}, true
		}
	}
	// driver.Valuer: Value() (driver.Value, error); the library unwraps what it returns
	if fn := i.methodOf(v.t, "Value"); fn != nil && fn.Signature.Params().Len() == 0 && fn.Signature.Results().Len() == 2 {
		res := call(i, fr, token.NoPos, fn, []value{v.v}).(tuple)
		val, _ := res[0].(iface)
		if val.t != nil && isNilErr(res[1]) {
			return i.valIndirect(fr, val)
		}
		return iface{}, true
	}
	return v, false
}

func (i *interpreter) valIsEmpty(v iface) value {
	if v.t == nil {
		return true
	}
	switch U := v.t.Underlying().(type) {
	case *types.Basic:
		switch {
		case U.Info()&types.IsString != 0:
			switch s := v.v.(type) {
			case string:
				return len(s) == 0
			case symstr:
				return len(s) == 0
			case opq:
				return s.n == 0
			}
		case U.Kind() == types.Bool:
			if b, ok := v.v.(bool); ok {
				return !b
			}
			return i.mkval(i.run.ctx.Not(i.term(v.v)), types.Bool)
		case U.Info()&types.IsNumeric != 0:
			if s, ok := v.v.(sym); ok {
				return i.mkval(i.run.ctx.Eq(s.t, i.run.ctx.Int64(0)), types.Bool)
			}
			return equals(v.t, v.v, zero(v.t))
		}
	case *types.Slice:
		s, _ := v.v.([]value)
		return len(s) == 0
	case *types.Array:
		return U.Len() == 0
	case *types.Map:
		m, _ := v.v.(*omap)
		return m == nil || m.len() == 0
	case *types.Pointer:
		p, _ := v.v.(*value)
		if p == nil {
			return true
		}
		return i.valIsEmpty(i.asIface(U.Elem(), *p))
	case *types.Interface:
		return true
	case *types.Struct:
		if n, ok := v.t.(*types.Named); ok && n.Obj().Pkg() != nil && n.Obj().Pkg().Path() == "time" && n.Obj().Name() == "Time" {
			unsup("validation: IsEmpty of time.Time")
		}
		return false
	}
	return false
}

func init() {
	argIface := func(v value) iface {
		iv, ok := v.(iface)
		if !ok {
			unsup("validation: interface argument expected")
		}
		return iv
	}
	intrinsics[valPath+".ValidateStructWithContext"] = func(fr *frame, args []value) value {
		// a harness may fix the outcome of struct validation (vrt.SetStub("validate.struct", ok))
		if f, ok := fr.i.run.ghostFlags["validate.struct"]; ok {
			if b, isB := f.(bool); isB && b {
				return iface{}
			}
			return fr.i.opaqueError("validate.struct failed", iface{})
		}
		fields, _ := args[2].([]value)
		return fr.i.valStruct(fr, args[0], argIface(args[1]), fields)
	}
	intrinsics[valPath+".ValidateStruct"] = func(fr *frame, args []value) value {
		bg := fr.i.prog.ImportedPackage("context").Func("Background")
		ctx := call(fr.i, fr, token.NoPos, bg, nil)
		fields, _ := args[1].([]value)
		return fr.i.valStruct(fr, ctx, argIface(args[0]), fields)
	}
	intrinsics[valPath+".ValidateWithContext"] = func(fr *frame, args []value) value {
		rules, _ := args[2].([]value)
		return fr.i.valValidate(fr, args[0], true, argIface(args[1]), rules)
	}
	intrinsics[valPath+".Validate"] = func(fr *frame, args []value) value {
		rules, _ := args[1].([]value)
		return fr.i.valValidate(fr, iface{}, false, argIface(args[0]), rules)
	}
	intrinsics[valPath+".IsEmpty"] = func(fr *frame, args []value) value {
		return fr.i.valIsEmpty(argIface(args[0]))
	}
	intrinsics[valPath+".Indirect"] = func(fr *frame, args []value) value {
		v, isNil := fr.i.valIndirect(fr, argIface(args[0]))
		return tuple{v, isNil}
	}
	intrinsics[valPath+".LengthOfValue"] = func(fr *frame, args []value) value {
		v := argIface(args[0])
		if v.t != nil {
			switch U := v.t.Underlying().(type) {
			case *types.Basic:
				if U.Info()&types.IsString != 0 {
					switch s := v.v.(type) {
					case string:
						return tuple{len(s), iface{}}
					case symstr:
						return tuple{len(s), iface{}}
					}
				}
			case *types.Slice:
				s, _ := v.v.([]value)
				return tuple{len(s), iface{}}
			case *types.Map:
				m, _ := v.v.(*omap)
				if m == nil {
					return tuple{0, iface{}}
				}
				return tuple{m.len(), iface{}}
			case *types.Array:
				return tuple{int(U.Len()), iface{}}
			}
		}
		return tuple{0, fr.i.opaqueError("cannot get the length", iface{})}
	}
	stringOf := func(fr *frame, v iface) (value, bool) {
		if v.t == nil {
			return nil, false
		}
		switch U := v.t.Underlying().(type) {
		case *types.Basic:
			if U.Info()&types.IsString != 0 {
				return v.v, true
			}
		case *types.Slice:
			if b, ok := U.Elem().Underlying().(*types.Basic); ok && b.Kind() == types.Byte && types.Identical(v.t, types.NewSlice(types.Typ[types.Byte])) {
				s, _ := v.v.([]value)
				return normStr(s), true
			}
		}
		return nil, false
	}
	intrinsics[valPath+".EnsureString"] = func(fr *frame, args []value) value {
		if s, ok := stringOf(fr, argIface(args[0])); ok {
			return tuple{s, iface{}}
		}
		return tuple{"", fr.i.opaqueError("must be either a string or byte slice", iface{})}
	}
	intrinsics[valPath+".StringOrBytes"] = func(fr *frame, args []value) value {
		v := argIface(args[0])
		if v.t != nil {
			if b, ok := v.t.Underlying().(*types.Basic); ok && b.Info()&types.IsString != 0 {
				return tuple{true, v.v, false, []value(nil)}
			}
			if types.Identical(v.t, types.NewSlice(types.Typ[types.Byte])) {
				s, _ := v.v.([]value)
				return tuple{false, "", true, s}
			}
		}
		return tuple{false, "", false, []value(nil)}
	}
	num := func(name string, pred func(b *types.Basic) bool, conv types.BasicKind) {
		intrinsics[valPath+"."+name] = func(fr *frame, args []value) value {
			v := argIface(args[0])
			if v.t != nil {
				if b, ok := v.t.Underlying().(*types.Basic); ok && pred(b) {
					return tuple{fr.i.convAny(types.Typ[conv], v.t, v.v), iface{}}
				}
			}
			return tuple{zero(types.Typ[conv]), fr.i.opaqueError("cannot convert", iface{})}
		}
	}
	num("ToInt", func(b *types.Basic) bool { return b.Info()&types.IsInteger != 0 && b.Info()&types.IsUnsigned == 0 }, types.Int64)
	num("ToUint", func(b *types.Basic) bool { return b.Info()&types.IsUnsigned != 0 }, types.Uint64)
	num("ToFloat", func(b *types.Basic) bool { return b.Info()&types.IsFloat != 0 }, types.Float64)

	// reflect.DeepEqual on interface values of comparable, pointer-free dynamic types (as used by validation.In / NotIn)
	intrinsics["reflect.DeepEqual"] = func(fr *frame, args []value) value {
		a, b := argIface(args[0]), argIface(args[1])
		if a.t == nil || b.t == nil {
			return a.t == nil && b.t == nil
		}
		if !sameType(a.t, b.t) {
			return false
		}
		switch a.t.Underlying().(type) {
		case *types.Basic:
			t := fr.i.eqTerm(a.t, a.v, b.v)
			if t.IsConst() {
				return t.B
			}
			return fr.i.mkval(t, types.Bool)
		}
		unsup("reflect.DeepEqual on %s", a.t)
		return nil
	}

	// (validation.EachRule).Validate: rules applied to every element of a map / slice / array
	intrinsics["("+valPath+".EachRule).ValidateWithContext"] = func(fr *frame, args []value) value {
		return eachRule(fr, args[0], args[1], true, argIface(args[2]))
	}
	_ = sort.Strings
}

func eachRule(fr *frame, rule value, ctx value, withCtx bool, val iface) value {
	i := fr.i
	rs, ok := rule.(structure)
	if !ok {
		unsup("validation: EachRule shape")
	}
	rules, _ := rs[0].([]value)
	if val.t == nil {
		return i.opaqueError("must be an iterable (map, slice or array)", iface{})
	}
	errs := makeMap(types.Typ[types.String], 0).(*omap)
	each := func(key string, T types.Type, e value) {
		ev := i.asIface(T, e)
		// getInterface: nil pointers / interfaces are passed as nil
		if ev.t != nil && valIsNilPtr(ev) {
			ev = iface{}
		}
		var err value
		if ev.t == nil {
			// Validate(nil, rules...) still runs the rules
			err = i.valValidate(fr, ctx, withCtx, iface{}, rules)
		} else {
			err = i.valValidate(fr, ctx, withCtx, ev, rules)
		}
		if !isNilErr(err) {
			errs.insert(i, key, err)
		}
	}
	switch U := val.t.Underlying().(type) {
	case *types.Map:
		m, _ := val.v.(*omap)
		if m != nil {
			for _, e := range m.entries {
				if e.live {
					each(keyString(e.key), U.Elem(), e.val)
				}
			}
		}
	case *types.Slice:
		s, _ := val.v.([]value)
		for k, e := range s {
			each(strconv.Itoa(k), U.Elem(), e)
		}
	case *types.Array:
		for k, e := range val.v.(array) {
			each(strconv.Itoa(k), U.Elem(), e)
		}
	default:
		return i.opaqueError("must be an iterable (map, slice or array)", iface{})
	}
	if errs.len() > 0 {
		return iface{t: i.valErrorsType(), v: errs}
	}
	return iface{}
}
