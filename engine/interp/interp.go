// Copyright 2013 The Go Authors. All rights reserved.
// Use of this source code is governed by a BSD-style
// license that can be found in the LICENSE file.

// Package ssa/interp defines an interpreter for the SSA
// representation of Go programs.
//
// This interpreter is provided as an adjunct for testing the SSA
// construction algorithm.  Its purpose is to provide a minimal
// metacircular implementation of the dynamic semantics of each SSA
// instruction.  It is not, and will never be, a production-quality Go
// interpreter.
//
// The following is a partial list of Go features that are currently
// unsupported or incomplete in the interpreter.
//
// * Unsafe operations, including all uses of unsafe.Pointer, are
// impossible to support given the "boxed" value representation we
// have chosen.
//
// * The reflect package is only partially implemented.
//
// * The "testing" package is no longer supported because it
// depends on low-level details that change too often.
//
// * "sync/atomic" operations are not atomic due to the "boxed" value
// representation: it is not possible to read, modify and write an
// interface value atomically. As a consequence, Mutexes are currently
// broken.
//
// * recover is only partially implemented.  Also, the interpreter
// makes no attempt to distinguish target panics from interpreter
// crashes.
//
// * the sizes of the int, uint and uintptr types in the target
// program are assumed to be the same as those of the interpreter
// itself.
//
// * all values occupy space, even those of types defined by the spec
// to have zero size, e.g. struct{}.  This can cause asymptotic
// performance degradation.
//
// * os.Exit is implemented using panic, causing deferred functions to
// run.
package interp

import (
	"fmt"
	"go/token"
	"go/types"
	"log"
	"os"
	"reflect"
	"runtime"
	"slices"
	"sync/atomic"

	"golang.org/x/tools/go/ssa"
)

type continuation int

const (
	kNext continuation = iota
	kReturn
	kJump
)

// Mode is a bitmask of options affecting the interpreter.
type Mode uint

const (
	DisableRecover Mode = 1 << iota // Disable recover() in target programs; show interpreter crash instead.
	EnableTracing                   // Print a trace of all instructions as they are interpreted.
)

type methodSet map[string]*ssa.Function

// State shared between all interpreted goroutines.
type interpreter struct {
	osArgs             []value                // the value of os.Args
	prog               *ssa.Program           // the SSA program
	globals            map[*ssa.Global]*value // addresses of global variables (immutable)
	mode               Mode                   // interpreter options
	reflectPackage     *ssa.Package           // the fake reflect package
	errorMethods       methodSet              // the method set of reflect.error, which implements the error interface.
	rtypeMethods       methodSet              // the method set of rtype, which implements the reflect.Type interface.
	runtimeErrorString types.Type             // the runtime.errorString type
	sizes              types.Sizes            // the effective type-sizing function
	goroutines         int32                  // atomically updated
	run                *run                   // current path (symbolic execution state)
	eng                *Engine
	lenient            bool // executing a package initialiser leniently
	nativeMemo         map[nativeKey]*value
	anonByPos  map[string]*ssa.Function
	jsonFrame  *frame // frame of the json.Unmarshal call being modelled (for calling UnmarshalJSON methods)
	curFn      *ssa.Function // function of the binary operation being evaluated (diagnostics)
	importing          bool
	registry           map[*value]bool // cells of natively imported shared definitions
	typeMemo           map[reflect.Type]types.Type
}

type deferred struct {
	fn    value
	args  []value
	instr *ssa.Defer
	tail  *deferred
}

type frame struct {
	i                *interpreter
	caller           *frame
	fn               *ssa.Function
	block, prevBlock *ssa.BasicBlock
	env              map[ssa.Value]value // dynamic values of SSA variables
	locals           []value
	defers           *deferred
	result           value
	panicking        bool
	panic            interface{}
	phitemps         []value // temporaries for parallel phi assignment
	visits           map[*ssa.BasicBlock]int
}

func (fr *frame) get(key ssa.Value) value {
	switch key := key.(type) {
	case nil:
		// Hack; simplifies handling of optional attributes
		// such as ssa.Slice.{Low,High}.
		return nil
	case *ssa.Function, *ssa.Builtin:
		return key
	case *ssa.Const:
		return constValue(key)
	case *ssa.Global:
		if r, ok := fr.i.globals[key]; ok {
			return r
		}
	}
	if r, ok := fr.env[key]; ok {
		return r
	}
	panic(fmt.Sprintf("get: no value for %T: %v", key, key.Name()))
}

// runDefer runs a deferred call d.
// It always returns normally, but may set or clear fr.panic.
func (fr *frame) runDefer(d *deferred) {
	if fr.i.mode&EnableTracing != 0 {
		fmt.Fprintf(os.Stderr, "%s: invoking deferred function call\n",
			fr.i.prog.Fset.Position(d.instr.Pos()))
	}
	var ok bool
	defer func() {
		if !ok {
			// Deferred call created a new state of panic.
			p := recover()
			if isEngineAbort(p) {
				panic(p)
			}
			fr.panicking = true
			fr.panic = p
		}
	}()
	call(fr.i, fr, d.instr.Pos(), d.fn, d.args)
	ok = true
}

// runDefers executes fr's deferred function calls in LIFO order.
//
// On entry, fr.panicking indicates a state of panic; if
// true, fr.panic contains the panic value.
//
// On completion, if a deferred call started a panic, or if no
// deferred call recovered from a previous state of panic, then
// runDefers itself panics after the last deferred call has run.
//
// If there was no initial state of panic, or it was recovered from,
// runDefers returns normally.
func (fr *frame) runDefers() {
	for d := fr.defers; d != nil; d = d.tail {
		fr.runDefer(d)
	}
	fr.defers = nil
	if fr.panicking {
		panic(fr.panic) // new panic, or still panicking
	}
}

// lookupMethod returns the method set for type typ, which may be one
// of the interpreter's fake types.
func lookupMethod(i *interpreter, typ types.Type, meth *types.Func) *ssa.Function {
	switch typ {
	case rtypeType:
		return i.rtypeMethods[meth.Id()]
	case errorType:
		return i.errorMethods[meth.Id()]
	}
	return i.prog.LookupMethod(typ, meth.Pkg(), meth.Name())
}

// visitInstr interprets a single ssa.Instruction within the activation
// record frame.  It returns a continuation value indicating where to
// read the next instruction from.
func visitInstr(fr *frame, instr ssa.Instruction) continuation {
	switch instr := instr.(type) {
	case *ssa.DebugRef:
		// no-op

	case *ssa.UnOp:
		x := fr.get(instr.X)
		if sx, ok := x.(sym); ok && instr.Op != token.MUL && instr.Op != token.ARROW {
			fr.env[instr] = fr.i.symUnop(instr.Op, instr.X.Type(), sx)
		} else if sp, ok := x.(symptr); ok && instr.Op == token.MUL {
			fr.env[instr] = fr.i.loadSymptr(sp)
		} else {
			fr.env[instr] = unop(instr, x)
		}

	case *ssa.BinOp:
		fr.i.curFn = fr.fn
		fr.env[instr] = fr.i.binopAny(instr.Op, instr.X.Type(), fr.get(instr.X), fr.get(instr.Y))

	case *ssa.Call:
		fn, args := prepareCall(fr, &instr.Call)
		fr.env[instr] = call(fr.i, fr, instr.Pos(), fn, args)

	case *ssa.ChangeInterface:
		fr.env[instr] = fr.get(instr.X)

	case *ssa.ChangeType:
		fr.env[instr] = fr.get(instr.X) // (can't fail)

	case *ssa.Convert:
		fr.env[instr] = fr.i.convAny(instr.Type(), instr.X.Type(), fr.get(instr.X))

	case *ssa.SliceToArrayPointer:
		fr.env[instr] = sliceToArrayPointer(instr.Type(), instr.X.Type(), fr.get(instr.X))

	case *ssa.MakeInterface:
		fr.env[instr] = iface{t: instr.X.Type(), v: fr.get(instr.X)}

	case *ssa.Extract:
		fr.env[instr] = fr.get(instr.Tuple).(tuple)[instr.Index]

	case *ssa.Slice:
		fr.env[instr] = fr.i.sliceAny(fr.get(instr.X), fr.get(instr.Low), fr.get(instr.High), fr.get(instr.Max))

	case *ssa.Return:
		switch len(instr.Results) {
		case 0:
		case 1:
			fr.result = fr.get(instr.Results[0])
		default:
			var res []value
			for _, r := range instr.Results {
				res = append(res, fr.get(r))
			}
			fr.result = tuple(res)
		}
		fr.block = nil
		return kReturn

	case *ssa.RunDefers:
		fr.runDefers()

	case *ssa.Panic:
		panic(targetPanic{fr.get(instr.X)})

	case *ssa.Send:
		fr.get(instr.Chan).(chan value) <- fr.get(instr.X)

	case *ssa.Store:
		if sp, ok := fr.get(instr.Addr).(symptr); ok {
			fr.i.storeSymptr(sp, fr.get(instr.Val))
		} else {
			fr.i.store(mustDeref(instr.Addr.Type()), fr.get(instr.Addr).(*value), fr.get(instr.Val))
		}

	case *ssa.If:
		succ := 1
		switch c := fr.get(instr.Cond).(type) {
		case bool:
			if c {
				succ = 0
			}
		case sym:
			if fr.i.branch(c.t) {
				succ = 0
			}
		default:
			unsup("If on %T", c)
		}
		fr.prevBlock, fr.block = fr.block, fr.block.Succs[succ]
		return kJump

	case *ssa.Jump:
		fr.prevBlock, fr.block = fr.block, fr.block.Succs[0]
		return kJump

	case *ssa.Defer:
		fn, args := prepareCall(fr, &instr.Call)
		defers := &fr.defers
		if into := fr.get(instr.DeferStack); into != nil {
			defers = into.(**deferred)
		}
		*defers = &deferred{
			fn:    fn,
			args:  args,
			instr: instr,
			tail:  *defers,
		}

	case *ssa.Go:
		fn, args := prepareCall(fr, &instr.Call)
		atomic.AddInt32(&fr.i.goroutines, 1)
		go func() {
			call(fr.i, nil, instr.Pos(), fn, args)
			atomic.AddInt32(&fr.i.goroutines, -1)
		}()

	case *ssa.MakeChan:
		fr.env[instr] = make(chan value, fr.i.asInt64c(fr.get(instr.Size), "chan size"))

	case *ssa.Alloc:
		var addr *value
		if instr.Heap {
			// new
			addr = new(value)
			fr.env[instr] = addr
		} else {
			// local
			addr = fr.env[instr].(*value)
		}
		*addr = zero(mustDeref(instr.Type()))

	case *ssa.MakeSlice:
		ncap := fr.i.asInt64c(fr.get(instr.Cap), "make cap")
		nlen := fr.i.asInt64c(fr.get(instr.Len), "make len")
		if nlen < 0 || ncap < nlen || ncap > 1<<24 {
			panic(runtimeError("makeslice: len out of range"))
		}
		slice := make([]value, ncap)
		tElt := instr.Type().Underlying().(*types.Slice).Elem()
		for i := range slice {
			slice[i] = zero(tElt)
		}
		fr.env[instr] = slice[:nlen]

	case *ssa.MakeMap:
		fr.env[instr] = makeMap(instr.Type().Underlying().(*types.Map).Key(), 0)

	case *ssa.Range:
		fr.env[instr] = fr.i.rangeIter(fr, fr.get(instr.X), instr.X.Type())

	case *ssa.Next:
		fr.env[instr] = fr.get(instr.Iter).(iter).next()

	case *ssa.FieldAddr:
		px := fr.get(instr.X).(*value)
		if px == nil {
			panic(runtimeError("invalid memory address or nil pointer dereference"))
		}
		fr.env[instr] = &(*px).(structure)[instr.Field]

	case *ssa.Field:
		fr.env[instr] = fr.get(instr.X).(structure)[instr.Field]

	case *ssa.IndexAddr:
		x := fr.get(instr.X)
		idx := fr.get(instr.Index)
		var cells []value
		switch x := x.(type) {
		case []value:
			cells = x
		case *value: // *array
			cells = (*x).(array)
		default:
			panic(fmt.Sprintf("unexpected x type in IndexAddr: %T", x))
		}
		if si, ok := idx.(sym); ok {
			fr.env[instr] = fr.i.indexAddrSym(cells, si)
		} else {
			n := asInt64(idx)
			if n < 0 || n >= int64(len(cells)) {
				panic(runtimeError(fmt.Sprintf("index out of range [%d] with length %d", n, len(cells))))
			}
			fr.env[instr] = &cells[n]
		}

	case *ssa.Index:
		x := fr.get(instr.X)
		idx := fr.get(instr.Index)

		fr.env[instr] = fr.i.indexAny(x, idx)

	case *ssa.Lookup:
		fr.env[instr] = fr.i.lookup(instr, fr.get(instr.X), fr.get(instr.Index))

	case *ssa.MapUpdate:
		m := fr.get(instr.Map)
		key := fr.get(instr.Key)
		v := fr.get(instr.Value)
		switch m := m.(type) {
		case *omap:
			m.insert(fr.i, key, v)
		default:
			panic(fmt.Sprintf("illegal map type: %T", m))
		}

	case *ssa.TypeAssert:
		fr.env[instr] = typeAssert(fr.i, instr, fr.get(instr.X).(iface))

	case *ssa.MakeClosure:
		var bindings []value
		for _, binding := range instr.Bindings {
			bindings = append(bindings, fr.get(binding))
		}
		fr.env[instr] = &closure{instr.Fn.(*ssa.Function), bindings}

	case *ssa.Phi:
		log.Fatal("unreachable") // phis are processed at block entry

	case *ssa.Select:
		var cases []reflect.SelectCase
		if !instr.Blocking {
			cases = append(cases, reflect.SelectCase{
				Dir: reflect.SelectDefault,
			})
		}
		for _, state := range instr.States {
			var dir reflect.SelectDir
			if state.Dir == types.RecvOnly {
				dir = reflect.SelectRecv
			} else {
				dir = reflect.SelectSend
			}
			var send reflect.Value
			if state.Send != nil {
				send = reflect.ValueOf(fr.get(state.Send))
			}
			cases = append(cases, reflect.SelectCase{
				Dir:  dir,
				Chan: reflect.ValueOf(fr.get(state.Chan)),
				Send: send,
			})
		}
		chosen, recv, recvOk := reflect.Select(cases)
		if !instr.Blocking {
			chosen-- // default case should have index -1.
		}
		r := tuple{chosen, recvOk}
		for i, st := range instr.States {
			if st.Dir == types.RecvOnly {
				var v value
				if i == chosen && recvOk {
					// No need to copy since send makes an unaliased copy.
					v = recv.Interface().(value)
				} else {
					v = zero(st.Chan.Type().Underlying().(*types.Chan).Elem())
				}
				r = append(r, v)
			}
		}
		fr.env[instr] = r

	default:
		panic(fmt.Sprintf("unexpected instruction: %T", instr))
	}

	// if val, ok := instr.(ssa.Value); ok {
	// 	fmt.Println(toString(fr.env[val])) // debugging
	// }

	return kNext
}

// prepareCall determines the function value and argument values for a
// function call in a Call, Go or Defer instruction, performing
// interface method lookup if needed.
func prepareCall(fr *frame, call *ssa.CallCommon) (fn value, args []value) {
	v := fr.get(call.Value)
	if call.Method == nil {
		// Function call.
		fn = v
	} else {
		// Interface method invocation.
		recv := v.(iface)
		if recv.t == nil {
			panic("method invoked on nil interface")
		}
		if f := lookupMethod(fr.i, recv.t, call.Method); f == nil {
			// Unreachable in well-typed programs.
			panic(fmt.Sprintf("method set for dynamic type %v does not contain %s", recv.t, call.Method))
		} else {
			fn = f
		}
		args = append(args, recv.v)
	}
	for _, arg := range call.Args {
		args = append(args, fr.get(arg))
	}
	return
}

// call interprets a call to a function (function, builtin or closure)
// fn with arguments args, returning its result.
// callpos is the position of the callsite.
func call(i *interpreter, caller *frame, callpos token.Pos, fn value, args []value) value {
	switch fn := fn.(type) {
	case *ssa.Function:
		if fn == nil {
			panic("call of nil function") // nil of func type
		}
		return callSSA(i, caller, callpos, fn, args, nil)
	case *closure:
		return callSSA(i, caller, callpos, fn.Fn, args, fn.Env)
	case *ssa.Builtin:
		return callBuiltin(caller, callpos, fn, args)
	case nativeFunc:
		unsup("call of a native closure without SSA counterpart: %s", fn.name)
	}
	panic(fmt.Sprintf("cannot call %T", fn))
}

func loc(fset *token.FileSet, pos token.Pos) string {
	if pos == token.NoPos {
		return ""
	}
	return " at " + fset.Position(pos).String()
}

// executePhis executes the phi-nodes at the start of the current
// block and returns the non-phi instructions.
func executePhis(fr *frame) []ssa.Instruction {
	firstNonPhi := -1
	for i, instr := range fr.block.Instrs {
		if _, ok := instr.(*ssa.Phi); !ok {
			firstNonPhi = i
			break
		}
	}
	// Inv: 0 <= firstNonPhi; every block contains a non-phi.

	nonPhis := fr.block.Instrs[firstNonPhi:]
	if firstNonPhi > 0 {
		phis := fr.block.Instrs[:firstNonPhi]
		// Execute parallel assignment of phis.
		//
		// See "the swap problem" in Briggs et al's "Practical Improvements
		// to the Construction and Destruction of SSA Form" for discussion.
		predIndex := slices.Index(fr.block.Preds, fr.prevBlock)
		fr.phitemps = fr.phitemps[:0]
		for _, phi := range phis {
			phi := phi.(*ssa.Phi)
			if fr.i.mode&EnableTracing != 0 {
				fmt.Fprintln(os.Stderr, "\t", phi.Name(), "=", phi)
			}
			fr.phitemps = append(fr.phitemps, fr.get(phi.Edges[predIndex]))
		}
		for i, phi := range phis {
			fr.env[phi.(*ssa.Phi)] = fr.phitemps[i]
		}
	}
	return nonPhis
}

// doRecover implements the recover() built-in.
func doRecover(caller *frame) value {
	// recover() must be exactly one level beneath the deferred
	// function (two levels beneath the panicking function) to
	// have any effect.  Thus we ignore both "defer recover()" and
	// "defer f() -> g() -> recover()".
	if caller.i.mode&DisableRecover == 0 &&
		caller != nil && !caller.panicking &&
		caller.caller != nil && caller.caller.panicking {
		caller.caller.panicking = false
		p := caller.caller.panic
		caller.caller.panic = nil

		// TODO(adonovan): support runtime.Goexit.
		switch p := p.(type) {
		case targetPanic:
			// The target program explicitly called panic().
			return p.v
		case runtime.Error:
			// The interpreter encountered a runtime error.
			return iface{caller.i.runtimeErrorString, p.Error()}
		case string:
			// The interpreter explicitly called panic().
			return iface{caller.i.runtimeErrorString, p}
		case error:
			return iface{caller.i.runtimeErrorString, p.Error()}
		default:
			panic(fmt.Sprintf("unexpected panic type %T in target call to recover()", p))
		}
	}
	return iface{}
}
