package interp

// Routing of SSA operations over possibly-symbolic values: strings with
// symbolic bytes, symbolic indices, equality over aggregates, store logging.

import (
	"fmt"
	"go/token"
	"go/types"
	"math/big"
	"unicode/utf8"

	"golang.org/x/tools/go/ssa"

	"gsx/smt"
)

// symstr is a string (or the content of one) with at least one symbolic byte;
// length is concrete. Elements are uint8 or sym{Uint8}.
type symstr []value

// opq is an abstract string / byte-slice identity (the result of an uninterpreted function such as a hash or a
// serialisation): only equality and copying are defined on it.
type opq struct {
	t *smt.Term
	n int // length when it is fixed by the function's contract (hex SHA-256: 64), else -1
}

// symptr is the address of cells[idx] for a symbolic index.
type symptr struct {
	cells []value
	idx   *smt.Term
}

func normStr(bs []value) value {
	buf := make([]byte, len(bs))
	for i, b := range bs {
		c, ok := b.(uint8)
		if !ok {
			return symstr(append([]value(nil), bs...))
		}
		buf[i] = c
	}
	return string(buf)
}

func strBytes(v value) []value {
	switch s := v.(type) {
	case string:
		out := make([]value, len(s))
		for i := 0; i < len(s); i++ {
			out[i] = s[i]
		}
		return out
	case symstr:
		return []value(s)
	}
	panic(fmt.Sprintf("strBytes: unexpected %T", v))
}

func (i *interpreter) opqTerm(v value) *smt.Term {
	switch x := v.(type) {
	case opq:
		return x.t
	case string:
		r := i.run
		if r.strIntern == nil {
			r.strIntern = map[string]int64{}
		}
		id, ok := r.strIntern[x]
		if !ok {
			id = int64(1000000000 + len(r.strIntern))
			r.strIntern[x] = id
		}
		return r.ctx.Int64(id)
	}
	unsup("comparison of an abstract (uninterpreted) string with %T", v)
	return nil
}

func (i *interpreter) binopAny(op token.Token, t types.Type, x, y value) value {
	_, xo := x.(opq)
	_, yo := y.(opq)
	if xo || yo {
		c := i.run.ctx
		eq := c.Eq(i.opqTerm(x), i.opqTerm(y))
		switch op {
		case token.EQL:
			return i.mkval(eq, types.Bool)
		case token.NEQ:
			return i.mkval(c.Not(eq), types.Bool)
		}
		if op == token.ADD {
			// concatenation with an abstract string is an abstract string (uninterpreted CONCAT: only equal
			// operands are known to give equal results)
			return opq{t: c.UF("CONCAT", smt.SInt, i.opqTerm(x), i.opqTerm(y)), n: -1}
		}
		unsup("operation %s on an abstract (uninterpreted) string in %v", op, i.curFn)
	}
	_, xs := x.(symstr)
	_, ys := y.(symstr)
	if isSym(x) || isSym(y) || xs || ys {
		return i.symBinop(op, t, x, y)
	}
	if (op == token.EQL || op == token.NEQ) && (hasSymInside(x) || hasSymInside(y)) {
		eq := i.eqTerm(t, x, y)
		if op == token.NEQ {
			eq = i.run.ctx.Not(eq)
		}
		return i.mkval(eq, types.Bool)
	}
	if _, bad := x.(poison); bad {
		unsup("use of poisoned value (%v)", x.(poison).why)
	}
	if _, bad := y.(poison); bad {
		unsup("use of poisoned value (%v)", y.(poison).why)
	}
	return binop(op, t, x, y)
}

func (i *interpreter) strBinop(op token.Token, x, y value) value {
	c := i.run.ctx
	a, b := strBytes(x), strBytes(y)
	switch op {
	case token.ADD:
		return normStr(append(append([]value{}, a...), b...))
	case token.EQL, token.NEQ:
		eq := i.bytesEq(a, b)
		if op == token.NEQ {
			eq = c.Not(eq)
		}
		return i.mkval(eq, types.Bool)
	case token.LSS, token.LEQ, token.GTR, token.GEQ:
		if op == token.GTR || op == token.GEQ {
			a, b = b, a
			if op == token.GTR {
				op = token.LSS
			} else {
				op = token.LEQ
			}
		}
		// lexicographic a < b (or <=)
		n := len(a)
		if len(b) < n {
			n = len(b)
		}
		// tail: all common bytes equal → compare lengths
		var res *smt.Term
		if op == token.LSS {
			res = c.Bool(len(a) < len(b))
		} else {
			res = c.Bool(len(a) <= len(b))
		}
		for k := n - 1; k >= 0; k-- {
			ak, bk := i.term(a[k]), i.term(b[k])
			res = c.Ite(c.Lt(ak, bk), c.True, c.Ite(c.Lt(bk, ak), c.False, res))
		}
		return i.mkval(res, types.Bool)
	}
	unsup("string op %s on symbolic strings", op)
	return nil
}

func (i *interpreter) bytesEq(a, b []value) *smt.Term {
	c := i.run.ctx
	if len(a) != len(b) {
		return c.False
	}
	var conj []*smt.Term
	for k := range a {
		conj = append(conj, c.Eq(i.term(a[k]), i.term(b[k])))
	}
	return c.And(conj...)
}

// eqTerm builds the equality of two values of static type t.
func (i *interpreter) eqTerm(t types.Type, x, y value) *smt.Term {
	c := i.run.ctx
	switch x := x.(type) {
	case sym:
		return c.Eq(x.t, i.term(y))
	case symstr:
		return i.bytesEq(strBytes(x), strBytes(y))
	case string:
		if ys, ok := y.(symstr); ok {
			return i.bytesEq(strBytes(x), strBytes(ys))
		}
	case structure:
		ys := y.(structure)
		st := t.Underlying().(*types.Struct)
		var conj []*smt.Term
		for k := range x {
			if st.Field(k).Name() == "_" {
				continue
			}
			conj = append(conj, i.eqTerm(st.Field(k).Type(), x[k], ys[k]))
		}
		return c.And(conj...)
	case array:
		ya := y.(array)
		et := t.Underlying().(*types.Array).Elem()
		var conj []*smt.Term
		for k := range x {
			conj = append(conj, i.eqTerm(et, x[k], ya[k]))
		}
		return c.And(conj...)
	case iface:
		yi := y.(iface)
		if !sameType(x.t, yi.t) {
			return c.False
		}
		if x.t == nil {
			return c.True
		}
		return i.eqTerm(x.t, x.v, yi.v)
	}
	if ysym, ok := y.(sym); ok {
		return c.Eq(i.term(x), ysym.t)
	}
	if _, ok := y.(symstr); ok {
		return i.bytesEq(strBytes(x), strBytes(y))
	}
	return c.Bool(eqnil(t, x, y))
}

// valueEq decides equality, forking when it is symbolic.
func (i *interpreter) valueEq(t types.Type, x, y value) bool {
	if !hasSymInside(x) && !hasSymInside(y) {
		return equals(t, x, y)
	}
	return i.branch(i.eqTerm(t, x, y))
}

func (i *interpreter) convAny(dst, src types.Type, x value) value {
	switch x := x.(type) {
	case sym:
		return i.symConv(dst, x)
	case symstr:
		// string -> []byte / string ; []rune unsupported
		switch ud := dst.Underlying().(type) {
		case *types.Slice:
			if ud.Elem().Underlying().(*types.Basic).Kind() == types.Byte {
				return append([]value(nil), x...)
			}
			// []rune(s): defined here for strings whose symbolic bytes are known to be ASCII (one rune per byte)
			out := make([]value, len(x))
			for k, b := range x {
				switch b := b.(type) {
				case uint8:
					if b >= 0x80 {
						unsup("[]rune of a symbolic string with non-ASCII bytes")
					}
					out[k] = int32(b)
				case sym:
					if b.t.Hi == nil || b.t.Hi.Int64() >= 0x80 {
						unsup("[]rune of a symbolic string whose bytes are not known to be ASCII")
					}
					out[k] = i.symConv(types.Typ[types.Int32], b)
				default:
					unsup("[]rune of symbolic string: unexpected byte %T", b)
				}
			}
			return out
		case *types.Basic:
			if ud.Kind() == types.String {
				return x
			}
		}
		unsup("conversion of symbolic string to %v", dst)
	case []value:
		if _, ok := src.Underlying().(*types.Slice); ok {
			if b, ok := dst.Underlying().(*types.Basic); ok && b.Kind() == types.String {
				for _, e := range x {
					if isSym(e) {
						if src.Underlying().(*types.Slice).Elem().Underlying().(*types.Basic).Kind() != types.Byte {
							unsup("string([]rune) with symbolic runes")
						}
						return symstr(append([]value(nil), x...))
					}
				}
			}
		}
	case poison:
		unsup("use of poisoned value (%v)", x.why)
	}
	return conv(dst, src, x)
}

// asInt64c concretises an integer value.
func (i *interpreter) asInt64c(v value, what string) int64 {
	if s, ok := v.(sym); ok {
		return i.concretize(s.t, what).Int64()
	}
	return asInt64(v)
}

func (i *interpreter) sliceAny(x, lo, hi, max value) value {
	var Len, Cap int
	switch x := x.(type) {
	case string:
		Len = len(x)
		Cap = Len
	case symstr:
		Len = len(x)
		Cap = Len
	case []value:
		Len = len(x)
		Cap = cap(x)
	case *value: // *array
		if x == nil {
			panic(runtimeError("invalid memory address or nil pointer dereference"))
		}
		a := (*x).(array)
		Len = len(a)
		Cap = cap(a)
	}
	l := int64(0)
	if lo != nil {
		l = i.asInt64c(lo, "slice low")
	}
	h := int64(Len)
	if hi != nil {
		h = i.asInt64c(hi, "slice high")
	}
	m := int64(Cap)
	if max != nil {
		m = i.asInt64c(max, "slice max")
	}
	if l < 0 || h < l || m < h || m > int64(Cap) {
		panic(runtimeError(fmt.Sprintf("slice bounds out of range [%d:%d:%d] with capacity %d", l, h, m, Cap)))
	}
	switch x := x.(type) {
	case string:
		return x[l:h]
	case symstr:
		return normStr(x[l:h])
	case []value:
		return x[l:h:m]
	case *value: // *array
		a := (*x).(array)
		return []value(a)[l:h:m]
	}
	panic(fmt.Sprintf("slice: unexpected X type: %T", x))
}

// boundsCheck forks on idx ∈ [0,n) and panics on the out-of-range side.
func (i *interpreter) boundsCheck(idx *smt.Term, n int) {
	c := i.run.ctx
	oob := c.Or(c.Lt(idx, c.Int64(0)), c.Ge(idx, c.Int64(int64(n))))
	if i.branch(oob) {
		panic(runtimeError(fmt.Sprintf("index out of range [symbolic] with length %d", n)))
	}
}

func scalarCell(v value) bool {
	switch v.(type) {
	case sym, bool, int, int8, int16, int32, int64, uint, uint8, uint16, uint32, uint64, uintptr, float64:
		return true
	}
	return false
}

func cellKind(v value) types.BasicKind {
	switch x := v.(type) {
	case sym:
		return x.k
	case bool:
		return types.Bool
	case int:
		return types.Int
	case int8:
		return types.Int8
	case int16:
		return types.Int16
	case int32:
		return types.Int32
	case int64:
		return types.Int64
	case uint:
		return types.Uint
	case uint8:
		return types.Uint8
	case uint16:
		return types.Uint16
	case uint32:
		return types.Uint32
	case uint64:
		return types.Uint64
	case uintptr:
		return types.Uintptr
	case float64:
		return types.Float64
	}
	return types.Invalid
}

// selectCell builds ite-chain of cells by idx (already bounds-checked), merging runs.
func (i *interpreter) selectCells(cells []value, idx *smt.Term) value {
	c := i.run.ctx
	n := len(cells)
	lo, hi := 0, n-1
	if idx.Lo != nil && idx.Lo.IsInt64() && idx.Lo.Int64() > 0 {
		lo = int(idx.Lo.Int64())
	}
	if idx.Hi != nil && idx.Hi.IsInt64() && idx.Hi.Int64() < int64(hi) {
		hi = int(idx.Hi.Int64())
	}
	if lo > hi {
		i.run.abort("infeasible", "empty index range")
	}
	k := cellKind(cells[lo])
	for j := lo; j <= hi; j++ {
		if !scalarCell(cells[j]) {
			// aggregate cells: fork on the index
			v := i.concretize(idx, "aggregate index").Int64()
			return cells[v]
		}
	}
	// group runs of identical terms
	type grp struct {
		from, to int
		t        *smt.Term
	}
	var gs []grp
	for j := lo; j <= hi; j++ {
		t := i.term(cells[j])
		if len(gs) > 0 && gs[len(gs)-1].t == t {
			gs[len(gs)-1].to = j
		} else {
			gs = append(gs, grp{j, j, t})
		}
	}
	res := gs[len(gs)-1].t
	for g := len(gs) - 2; g >= 0; g-- {
		// idx <= to (runs are in ascending order and idx >= lo)
		res = c.Ite(c.Le(idx, c.Int64(int64(gs[g].to))), gs[g].t, res)
	}
	return i.mkval(res, k)
}

func (i *interpreter) indexAddrSym(cells []value, idx sym) value {
	i.boundsCheck(idx.t, len(cells))
	if len(cells) == 1 {
		return &cells[0]
	}
	return symptr{cells, idx.t}
}

func (i *interpreter) loadSymptr(p symptr) value {
	return i.selectCells(p.cells, p.idx)
}

func (i *interpreter) storeSymptr(p symptr, v value) {
	c := i.run.ctx
	if !scalarCell(v) {
		k := i.concretize(p.idx, "store index").Int64()
		i.logStore(&p.cells[k])
		p.cells[k] = v
		return
	}
	vt := i.term(v)
	for j := range p.cells {
		if p.idx.Lo != nil && p.idx.Lo.IsInt64() && int64(j) < p.idx.Lo.Int64() {
			continue
		}
		if p.idx.Hi != nil && p.idx.Hi.IsInt64() && int64(j) > p.idx.Hi.Int64() {
			continue
		}
		if !scalarCell(p.cells[j]) {
			unsup("symbolic-index store into aggregate cells")
		}
		i.logStore(&p.cells[j])
		k := cellKind(p.cells[j])
		p.cells[j] = i.mkval(c.Ite(c.Eq(p.idx, c.Int64(int64(j))), vt, i.term(p.cells[j])), k)
	}
}

func (i *interpreter) indexAny(x, idx value) value {
	var cells []value
	switch x := x.(type) {
	case array:
		cells = x
	case string:
		if si, ok := idx.(sym); ok {
			i.boundsCheck(si.t, len(x))
			return i.selectCells(strBytes(x), si.t)
		}
		n := asInt64(idx)
		if n < 0 || n >= int64(len(x)) {
			panic(runtimeError(fmt.Sprintf("index out of range [%d] with length %d", n, len(x))))
		}
		return x[n]
	case symstr:
		cells = x
	default:
		panic(fmt.Sprintf("unexpected x type in Index: %T", x))
	}
	if si, ok := idx.(sym); ok {
		i.boundsCheck(si.t, len(cells))
		return i.selectCells(cells, si.t)
	}
	n := asInt64(idx)
	if n < 0 || n >= int64(len(cells)) {
		panic(runtimeError(fmt.Sprintf("index out of range [%d] with length %d", n, len(cells))))
	}
	return cells[n]
}

func (i *interpreter) lookup(instr *ssa.Lookup, x, idx value) value {
	switch x := x.(type) {
	case *omap:
		v, ok := x.lookup(i, idx)
		if !ok {
			v = zero(instr.X.Type().Underlying().(*types.Map).Elem())
		}
		if instr.CommaOk {
			v = tuple{v, ok}
		}
		return v
	}
	panic(fmt.Sprintf("unexpected x type in Lookup: %T", x))
}

// --- iteration

type symStringIter struct {
	i   *interpreter
	fr  *frame
	s   []value
	pos int
}

func (it *symStringIter) next() tuple {
	if it.pos >= len(it.s) {
		return tuple{false, nil, nil}
	}
	rest := normStr(it.s[it.pos:])
	var r value
	var n int
	if cs, ok := rest.(string); ok {
		rr, nn := utf8.DecodeRuneInString(cs)
		r, n = rr, nn
	} else {
		fn := it.i.utf8Decode()
		res := callSSA(it.i, it.fr, token.NoPos, fn, []value{rest}, nil).(tuple)
		r = res[0]
		n = int(it.i.asInt64c(res[1], "rune width"))
	}
	idx := it.pos
	it.pos += n
	return tuple{true, idx, r}
}

func (i *interpreter) utf8Decode() *ssa.Function {
	pkg := i.prog.ImportedPackage("unicode/utf8")
	if pkg == nil {
		unsup("unicode/utf8 not loaded")
	}
	return pkg.Func("DecodeRuneInString")
}

func (i *interpreter) rangeIter(fr *frame, x value, t types.Type) iter {
	switch x := x.(type) {
	case *omap:
		return &omapIter{m: x}
	case string:
		return &symStringIter{i: i, fr: fr, s: strBytes(x)}
	case symstr:
		return &symStringIter{i: i, fr: fr, s: x}
	}
	panic(fmt.Sprintf("cannot range over %T", x))
}

// --- stores, undo log, frozen cells

func (i *interpreter) logStore(addr *value) {
	if i.run == nil {
		return
	}
	if why, ok := i.run.frozen[addr]; ok {
		i.frozenWrite(why)
	}
	if i.registry[addr] {
		i.frozenWrite("shared-definition")
	}
	i.run.undo = append(i.run.undo, undoRec{addr: addr, old: *addr})
}

func (i *interpreter) logMap(m *omap, k, old value, had bool) {
	if i.run == nil || i.importing {
		return
	}
	i.run.undo = append(i.run.undo, undoRec{m: m, key: k, old: old, had: had})
}

func (i *interpreter) logAppend(s []value, n int) {
	if i.run == nil {
		return
	}
	// cells written in place when capacity suffices
	if len(s)+n <= cap(s) {
		full := s[:len(s)+n]
		for k := len(s); k < len(full); k++ {
			i.logStore(&full[k])
		}
	}
}

func (i *interpreter) frozenWrite(why string) {
	r := i.run
	if r == nil {
		return
	}
	m, res := r.model()
	if res == smt.Sat {
		r.finding("frozen-write", "frozen:"+why, "store to frozen cell: "+why, m, "")
	} else {
		r.res.Unknown = append(r.res.Unknown, "frozen-write model")
	}
}

// store stores value v of type T into *addr (with undo logging).
func (i *interpreter) store(T types.Type, addr *value, v value) {
	if addr == nil {
		panic(runtimeError("invalid memory address or nil pointer dereference"))
	}
	switch T := T.Underlying().(type) {
	case *types.Struct:
		lhs := (*addr).(structure)
		rhs := v.(structure)
		for k := range lhs {
			i.store(T.Field(k).Type(), &lhs[k], rhs[k])
		}
	case *types.Array:
		lhs := (*addr).(array)
		rhs := v.(array)
		for k := range lhs {
			i.store(T.Elem(), &lhs[k], rhs[k])
		}
	default:
		i.logStore(addr)
		*addr = v
	}
}

// freeze registers every cell reachable from v.
func (i *interpreter) freeze(v value, why string, seen map[interface{}]bool) {
	r := i.run
	switch x := v.(type) {
	case *value:
		if x == nil || seen[x] {
			return
		}
		seen[x] = true
		i.freezeCell(x, why, seen)
	case []value:
		for k := range x[:cap(x)] {
			full := x[:cap(x)]
			i.freezeCell(&full[k], why, seen)
		}
	case structure:
		for k := range x {
			i.freeze(x[k], why, seen)
		}
	case array:
		for k := range x {
			i.freeze(x[k], why, seen)
		}
	case iface:
		i.freeze(x.v, why, seen)
	case *omap:
		if x == nil || seen[x] {
			return
		}
		seen[x] = true
		if x.frozen == "" {
			x.frozen = why
			r.frozenMaps = append(r.frozenMaps, x)
		}
		for _, e := range x.entries {
			if e.live {
				i.freeze(e.val, why, seen)
			}
		}
	}
}

func (i *interpreter) freezeCell(p *value, why string, seen map[interface{}]bool) {
	r := i.run
	switch c := (*p).(type) {
	case structure:
		for k := range c {
			i.freezeCell(&c[k], why, seen)
		}
	case array:
		for k := range c {
			i.freezeCell(&c[k], why, seen)
		}
	default:
		r.frozen[p] = why
		i.freeze(c, why, seen)
	}
}

func bigFromInt(n int) *big.Int { return big.NewInt(int64(n)) }
