package interp

// Symbolic scalar values and their operations.

import (
	"fmt"
	"go/token"
	"go/types"
	"math"
	"math/big"

	"gsx/smt"
)

// sym is a symbolic scalar: an SMT term tagged with the Go basic kind whose
// value range it is guaranteed to lie in (Int sort for integers, Bool for
// bool, Real for float64).
type sym struct {
	t *smt.Term
	k types.BasicKind
}

// unsupported is panicked by the engine when it meets something it cannot
// encode; the path ends with outcome "unsupported".
type unsupported struct{ msg string }

func (u unsupported) Error() string { return "unsupported: " + u.msg }

func unsup(format string, args ...interface{}) {
	panic(unsupported{fmt.Sprintf(format, args...)})
}

func isSym(v value) bool {
	_, ok := v.(sym)
	return ok
}

var (
	big0     = big.NewInt(0)
	big1     = big.NewInt(1)
	pow2     = func(n uint) *big.Int { return new(big.Int).Lsh(big1, n) }
	two52    = pow2(52)
	two53    = pow2(53)
	ulpHalf  = new(big.Rat).SetFrac(big1, pow2(53)) // 2^-53
	ratHalf  = big.NewRat(1, 2)
	ratTwo   = big.NewRat(2, 1)
	ratTwo52 = new(big.Rat).SetInt(two52)
	ratTwo53 = new(big.Rat).SetInt(two53)
)

func kindBits(k types.BasicKind) (bits uint, signed bool) {
	switch k {
	case types.Int, types.Int64:
		return 64, true
	case types.Int8:
		return 8, true
	case types.Int16:
		return 16, true
	case types.Int32:
		return 32, true
	case types.Uint, types.Uint64, types.Uintptr:
		return 64, false
	case types.Uint8:
		return 8, false
	case types.Uint16:
		return 16, false
	case types.Uint32:
		return 32, false
	}
	panic(fmt.Sprintf("kindBits: not an integer kind %v", k))
}

func isIntKind(k types.BasicKind) bool {
	switch k {
	case types.Int, types.Int8, types.Int16, types.Int32, types.Int64,
		types.Uint, types.Uint8, types.Uint16, types.Uint32, types.Uint64, types.Uintptr:
		return true
	}
	return false
}

func kindRange(k types.BasicKind) (lo, hi *big.Int) {
	bits, signed := kindBits(k)
	if signed {
		hi = new(big.Int).Sub(pow2(bits-1), big1)
		lo = new(big.Int).Neg(pow2(bits - 1))
		return
	}
	return big0, new(big.Int).Sub(pow2(bits), big1)
}

func basicKind(t types.Type) types.BasicKind {
	b, ok := t.Underlying().(*types.Basic)
	if !ok {
		panic(fmt.Sprintf("basicKind: %v is not basic", t))
	}
	k := b.Kind()
	switch k {
	case types.UntypedInt:
		return types.Int
	case types.UntypedRune:
		return types.Int32
	case types.UntypedFloat:
		return types.Float64
	case types.UntypedBool:
		return types.Bool
	}
	return k
}

// concreteOfKind builds the interpreter's native value of kind k from v.
func concreteOfKind(k types.BasicKind, v *big.Int) value {
	switch k {
	case types.Int:
		return int(v.Int64())
	case types.Int8:
		return int8(v.Int64())
	case types.Int16:
		return int16(v.Int64())
	case types.Int32:
		return int32(v.Int64())
	case types.Int64:
		return v.Int64()
	case types.Uint:
		return uint(v.Uint64())
	case types.Uint8:
		return uint8(v.Uint64())
	case types.Uint16:
		return uint16(v.Uint64())
	case types.Uint32:
		return uint32(v.Uint64())
	case types.Uint64:
		return v.Uint64()
	case types.Uintptr:
		return uintptr(v.Uint64())
	}
	panic(fmt.Sprintf("concreteOfKind: %v", k))
}

func bigOf(v value) (*big.Int, bool) {
	switch x := v.(type) {
	case int:
		return big.NewInt(int64(x)), true
	case int8:
		return big.NewInt(int64(x)), true
	case int16:
		return big.NewInt(int64(x)), true
	case int32:
		return big.NewInt(int64(x)), true
	case int64:
		return big.NewInt(x), true
	case uint:
		return new(big.Int).SetUint64(uint64(x)), true
	case uint8:
		return big.NewInt(int64(x)), true
	case uint16:
		return big.NewInt(int64(x)), true
	case uint32:
		return big.NewInt(int64(x)), true
	case uint64:
		return new(big.Int).SetUint64(x), true
	case uintptr:
		return new(big.Int).SetUint64(uint64(x)), true
	}
	return nil, false
}

// term converts an interpreter scalar to a term.
func (i *interpreter) term(v value) *smt.Term {
	c := i.run.ctx
	switch x := v.(type) {
	case sym:
		return x.t
	case bool:
		return c.Bool(x)
	case float64:
		if math.IsNaN(x) || math.IsInf(x, 0) {
			unsup("NaN/Inf in symbolic float arithmetic")
		}
		return c.Real(new(big.Rat).SetFloat64(x))
	case float32:
		return c.Real(new(big.Rat).SetFloat64(float64(x)))
	}
	if b, ok := bigOf(v); ok {
		return c.Int(b)
	}
	unsup("term of %T", v)
	return nil
}

// mkval wraps a term as a value of kind k, collapsing constants to native values.
func (i *interpreter) mkval(t *smt.Term, k types.BasicKind) value {
	if t.IsConst() {
		switch t.Sort {
		case smt.SBool:
			return t.B
		case smt.SInt:
			return concreteOfKind(k, t.I)
		case smt.SReal:
			f, exact := t.R.Float64()
			if exact {
				if k == types.Float32 {
					return float32(f)
				}
				return f
			}
		}
	}
	return sym{t, k}
}

// wrap reduces an exact integer term into the range of kind k (two's complement).
func (i *interpreter) wrap(e *smt.Term, k types.BasicKind) *smt.Term {
	lo, hi := kindRange(k)
	if e.InRange(lo, hi) {
		return e
	}
	c := i.run.ctx
	bits, _ := kindBits(k)
	if v, ok := e.ConstInt(); ok {
		m := new(big.Int).Mod(v, pow2(bits)) // in [0,2^bits)
		if m.Cmp(hi) > 0 {
			m.Sub(m, pow2(bits))
		}
		return c.Int(m)
	}
	key := fmt.Sprintf("wrap%d_%v_%d", bits, lo.Sign() < 0, e.ID)
	if r, ok := i.run.memo[key]; ok {
		return r
	}
	kv := c.Fresh("wk", smt.SInt, nil, nil)
	r := c.Sub(e, c.Mul(c.Int(pow2(bits)), kv))
	kv.AddDef(c.And(c.Le(c.Int(lo), r), c.Le(r, c.Int(hi))))
	// r's interval is the type's range
	res := c.Fresh("w", smt.SInt, lo, hi)
	res.AddDef(c.Eq(res, r))
	i.run.memo[key] = res
	i.run.stats.wraps++
	return res
}

// euclid returns truncated quotient and remainder terms of x / d (Go semantics).
func (i *interpreter) euclid(x, d *smt.Term) (q, r *smt.Term) {
	c := i.run.ctx
	if xv, ok := x.ConstInt(); ok {
		if dv, ok := d.ConstInt(); ok && dv.Sign() != 0 {
			qq, rr := new(big.Int).QuoRem(xv, dv, new(big.Int))
			return c.Int(qq), c.Int(rr)
		}
	}
	key := fmt.Sprintf("euc_%d_%d", x.ID, d.ID)
	if m, ok := i.run.memo2[key]; ok {
		return m[0], m[1]
	}
	// x = d*A + B with 0 <= B < d by intervals  =>  q = A, r = B (exact, no witness)
	if dv, ok := d.ConstInt(); ok && dv.Sign() > 0 && x.Op == smt.OAdd {
		var aPart, bPart []*smt.Term
		for _, a := range x.Args {
			coef := big1
			base := a
			if a.Op == smt.OMul && a.Args[0].IsConst() {
				coef, base = a.Args[0].I, a.Args[1]
			} else if a.IsConst() {
				coef, base = a.I, nil
			}
			if new(big.Int).Mod(coef, dv).Sign() == 0 {
				k := c.Int(new(big.Int).Quo(coef, dv))
				if base == nil {
					aPart = append(aPart, k)
				} else {
					aPart = append(aPart, c.Mul(k, base))
				}
			} else {
				bPart = append(bPart, a)
			}
		}
		if len(aPart) > 0 {
			bt := c.Int64(0)
			if len(bPart) > 0 {
				bt = c.Add(bPart...)
			}
			at := c.Add(aPart...)
			if bt.InRange(big0, new(big.Int).Sub(dv, big1)) && at.Lo != nil && at.Lo.Sign() >= 0 {
				i.run.memo2[key] = [2]*smt.Term{at, bt}
				return at, bt
			}
		}
	}
	var rlo, rhi, qlo, qhi *big.Int
	if dv, ok := d.ConstInt(); ok {
		ad := new(big.Int).Abs(dv)
		rhi = new(big.Int).Sub(ad, big1)
		rlo = new(big.Int).Neg(rhi)
		if x.Lo != nil && x.Hi != nil {
			a := new(big.Int).Quo(x.Lo, dv)
			b := new(big.Int).Quo(x.Hi, dv)
			if a.Cmp(b) > 0 {
				a, b = b, a
			}
			qlo, qhi = a, b
		}
	}
	if x.Lo != nil && x.Lo.Sign() >= 0 {
		rlo = big0
	}
	if x.Hi != nil && x.Hi.Sign() <= 0 {
		rhi = big0
	}
	q = c.Fresh("q", smt.SInt, qlo, qhi)
	r = c.Fresh("r", smt.SInt, rlo, rhi)
	absd := c.Ite(c.Ge(d, c.Int64(0)), d, c.Neg(d))
	def := c.And(
		c.Eq(x, c.Add(c.Mul(q, d), r)),
		c.Implies(c.Ge(x, c.Int64(0)), c.And(c.Le(c.Int64(0), r), c.Lt(r, absd))),
		c.Implies(c.Lt(x, c.Int64(0)), c.And(c.Lt(c.Neg(absd), r), c.Le(r, c.Int64(0)))),
	)
	q.AddDef(def)
	r.AddDef(def)
	i.run.memo2[key] = [2]*smt.Term{q, r}
	i.run.stats.euclids++
	return q, r
}

// floorDivPow2 returns floor(x / 2^n) and x mod 2^n (non-negative remainder).
func (i *interpreter) floorDivPow2(x *smt.Term, n uint) (q, r *smt.Term) {
	c := i.run.ctx
	p := pow2(n)
	if xv, ok := x.ConstInt(); ok {
		qq, rr := new(big.Int).DivMod(xv, p, new(big.Int))
		return c.Int(qq), c.Int(rr)
	}
	key := fmt.Sprintf("fdp_%d_%d", x.ID, n)
	if m, ok := i.run.memo2[key]; ok {
		return m[0], m[1]
	}
	var qlo, qhi *big.Int
	if x.Lo != nil && x.Hi != nil {
		qlo = new(big.Int).Div(x.Lo, p)
		qhi = new(big.Int).Div(x.Hi, p)
	}
	q = c.Fresh("fq", smt.SInt, qlo, qhi)
	r = c.Fresh("fr", smt.SInt, big0, new(big.Int).Sub(p, big1))
	def := c.Eq(x, c.Add(c.Mul(c.Int(p), q), r))
	q.AddDef(def)
	r.AddDef(def)
	i.run.memo2[key] = [2]*smt.Term{q, r}
	return q, r
}

// bits decomposes a non-negative term known to fit in n bits into boolean bit terms.
func (i *interpreter) bitsOf(x *smt.Term, n uint) []*smt.Term {
	c := i.run.ctx
	out := make([]*smt.Term, n)
	if xv, ok := x.ConstInt(); ok {
		for b := uint(0); b < n; b++ {
			out[b] = c.Bool(xv.Bit(int(b)) == 1)
		}
		return out
	}
	key := fmt.Sprintf("bits_%d_%d", x.ID, n)
	if m, ok := i.run.memoBits[key]; ok {
		return m
	}
	sum := []*smt.Term{}
	var vars []*smt.Term
	for b := uint(0); b < n; b++ {
		v := c.Fresh("bit", smt.SInt, big0, big1)
		vars = append(vars, v)
		out[b] = c.Eq(v, c.Int64(1))
		sum = append(sum, c.Mul(c.Int(pow2(b)), v))
	}
	def := c.Eq(x, c.Add(sum...))
	for _, v := range vars {
		v.AddDef(def)
	}
	i.run.memoBits[key] = out
	return out
}

func (i *interpreter) fromBits(bs []*smt.Term) *smt.Term {
	c := i.run.ctx
	var sum []*smt.Term
	for b, t := range bs {
		sum = append(sum, c.Ite(t, c.Int(pow2(uint(b))), c.Int64(0)))
	}
	if len(sum) == 0 {
		return c.Int64(0)
	}
	return c.Add(sum...)
}

// toUnsigned maps a term of kind k to its unsigned bit pattern value.
func (i *interpreter) toUnsigned(x *smt.Term, k types.BasicKind) *smt.Term {
	bits, signed := kindBits(k)
	if !signed || (x.Lo != nil && x.Lo.Sign() >= 0) {
		return x
	}
	c := i.run.ctx
	return c.Ite(c.Lt(x, c.Int64(0)), c.Add(x, c.Int(pow2(bits))), x)
}

func (i *interpreter) fromUnsigned(u *smt.Term, k types.BasicKind) *smt.Term {
	bits, signed := kindBits(k)
	if !signed {
		return u
	}
	c := i.run.ctx
	_, hi := kindRange(k)
	if u.Hi != nil && u.Hi.Cmp(hi) <= 0 {
		return u
	}
	return c.Ite(c.Gt(u, c.Int(hi)), c.Sub(u, c.Int(pow2(bits))), u)
}

// bitwise implements & | ^ &^ on integer terms of kind k.
func (i *interpreter) bitwise(op token.Token, x, y *smt.Term, k types.BasicKind) *smt.Term {
	c := i.run.ctx
	bits, _ := kindBits(k)
	// constant-mask fast paths on non-negative operands
	if op == token.AND {
		if yv, ok := y.ConstInt(); !ok {
			if _, ok2 := x.ConstInt(); ok2 {
				x, y = y, x
			}
		} else {
			_ = yv
		}
		if yv, ok := y.ConstInt(); ok && yv.Sign() >= 0 && x.Lo != nil && x.Lo.Sign() >= 0 {
			// low mask 2^n-1
			m := new(big.Int).Add(yv, big1)
			if m.BitLen() > 0 && new(big.Int).And(m, yv).Sign() == 0 {
				n := uint(m.BitLen() - 1)
				_, r := i.floorDivPow2(x, n)
				return r
			}
		}
	}
	// general: bit-blast when operands are small
	ux, uy := i.toUnsigned(x, k), i.toUnsigned(y, k)
	width := bits
	small := func(t *smt.Term) uint {
		if t.Hi != nil && t.Lo != nil && t.Lo.Sign() >= 0 {
			return uint(t.Hi.BitLen())
		}
		return bits
	}
	wx, wy := small(ux), small(uy)
	switch op {
	case token.AND:
		width = wx
		if wy < width {
			width = wy
		}
	case token.AND_NOT:
		width = wx
	default:
		width = wx
		if wy > width {
			width = wy
		}
	}
	if width > 32 {
		unsup("bitwise %s on wide symbolic operands (%d bits)", op, width)
	}
	nb := wx
	if wy > nb {
		nb = wy
	}
	if nb > 32 {
		// one side is wide: reduce it modulo 2^width first (valid for AND / AND_NOT)
		if wx > 32 {
			_, ux = i.floorDivPow2(ux, width)
			wx = width
		}
		if wy > 32 {
			_, uy = i.floorDivPow2(uy, width)
			wy = width
		}
		nb = width
	}
	bx, by := i.bitsOf(ux, nb), i.bitsOf(uy, nb)
	out := make([]*smt.Term, nb)
	for b := range out {
		switch op {
		case token.AND:
			out[b] = c.And(bx[b], by[b])
		case token.OR:
			out[b] = c.Or(bx[b], by[b])
		case token.XOR:
			out[b] = c.Not(c.Eq(bx[b], by[b]))
		case token.AND_NOT:
			out[b] = c.And(bx[b], c.Not(by[b]))
		}
	}
	return i.fromUnsigned(i.fromBits(out), k)
}

func (i *interpreter) symBinop(op token.Token, t types.Type, x, y value) value {
	c := i.run.ctx
	k := basicKind(t)
	switch op {
	case token.SHL, token.SHR:
		return i.symShift(op, k, x, y)
	}
	if k == types.String {
		return i.strBinop(op, x, y)
	}
	a, b := i.term(x), i.term(y)
	if k == types.Bool {
		switch op {
		case token.EQL:
			return i.mkval(c.Eq(a, b), types.Bool)
		case token.NEQ:
			return i.mkval(c.Not(c.Eq(a, b)), types.Bool)
		case token.AND, token.LAND:
			return i.mkval(c.And(a, b), types.Bool)
		case token.OR, token.LOR:
			return i.mkval(c.Or(a, b), types.Bool)
		}
		unsup("bool binop %s", op)
	}
	if k == types.Float64 || k == types.Float32 {
		if k == types.Float32 {
			unsup("float32 symbolic arithmetic")
		}
		ai, aok := realAsInt(c, a)
		bi, bok := realAsInt(c, b)
		switch op {
		case token.ADD:
			if aok && bok {
				return i.mkval(i.fround(c.ToReal(c.Add(ai, bi))), k)
			}
			return i.mkval(i.fround(c.Add(a, b)), k)
		case token.SUB:
			if aok && bok {
				return i.mkval(i.fround(c.ToReal(c.Sub(ai, bi))), k)
			}
			return i.mkval(i.fround(c.Sub(a, b)), k)
		case token.MUL:
			if aok && bok {
				return i.mkval(i.fround(c.ToReal(c.Mul(ai, bi))), k)
			}
			return i.mkval(i.fround(c.Mul(a, b)), k)
		case token.QUO:
			if b.IsConst() && b.R.Sign() == 0 {
				unsup("float division by zero")
			}
			if !b.IsConst() {
				if i.branch(c.Eq(b, c.Real(new(big.Rat)))) {
					unsup("float division by zero (symbolic divisor)")
				}
			}
			return i.mkval(i.fround(c.DivR(a, b)), k)
		}
		return i.symCompare(op, a, b)
	}
	if !isIntKind(k) {
		unsup("symbolic binop %s on %v", op, t)
	}
	switch op {
	case token.ADD:
		return i.mkval(i.wrap(c.Add(a, b), k), k)
	case token.SUB:
		return i.mkval(i.wrap(c.Sub(a, b), k), k)
	case token.MUL:
		return i.mkval(i.wrap(c.Mul(a, b), k), k)
	case token.QUO, token.REM:
		if bv, ok := b.ConstInt(); ok {
			if bv.Sign() == 0 {
				panic(runtimeError("integer divide by zero"))
			}
		} else if i.branch(c.Eq(b, c.Int64(0))) {
			panic(runtimeError("integer divide by zero"))
		}
		q, r := i.euclid(a, b)
		if op == token.QUO {
			return i.mkval(i.wrap(q, k), k)
		}
		return i.mkval(r, k)
	case token.AND, token.OR, token.XOR, token.AND_NOT:
		return i.mkval(i.bitwise(op, a, b, k), k)
	}
	return i.symCompare(op, a, b)
}

// realAsInt recognises integer-valued real terms.
func realAsInt(c *smt.Ctx, t *smt.Term) (*smt.Term, bool) {
	if t.Op == smt.OToReal {
		return t.Args[0], true
	}
	if t.IsConst() && t.Sort == smt.SReal && t.R.IsInt() {
		return c.Int(t.R.Num()), true
	}
	return nil, false
}

type runtimeError string

func (e runtimeError) Error() string { return "runtime error: " + string(e) }
func (e runtimeError) RuntimeError() {}

func (i *interpreter) symCompare(op token.Token, a, b *smt.Term) value {
	c := i.run.ctx
	var r *smt.Term
	switch op {
	case token.EQL:
		r = c.Eq(a, b)
	case token.NEQ:
		r = c.Not(c.Eq(a, b))
	case token.LSS:
		r = c.Lt(a, b)
	case token.LEQ:
		r = c.Le(a, b)
	case token.GTR:
		r = c.Gt(a, b)
	case token.GEQ:
		r = c.Ge(a, b)
	default:
		unsup("symbolic binop %s", op)
	}
	return i.mkval(r, types.Bool)
}

func (i *interpreter) symShift(op token.Token, k types.BasicKind, x, y value) value {
	c := i.run.ctx
	// shift count: concretise
	var n uint64
	if ys, ok := y.(sym); ok {
		if ys.t.Lo != nil && ys.t.Lo.Sign() < 0 {
			if i.branch(c.Lt(ys.t, c.Int64(0))) {
				panic(runtimeError("negative shift amount"))
			}
		}
		n = i.concretize(ys.t, "shift count").Uint64()
	} else {
		b, _ := bigOf(y)
		if b.Sign() < 0 {
			panic(runtimeError("negative shift amount"))
		}
		n = b.Uint64()
	}
	a := i.term(x)
	bits, signed := kindBits(k)
	if op == token.SHL {
		if n >= uint64(bits) {
			return concreteOfKind(k, big0)
		}
		return i.mkval(i.wrap(c.Mul(c.Int(pow2(uint(n))), a), k), k)
	}
	// SHR: arithmetic for signed (floor division), logical for unsigned (same on non-negatives)
	if n >= uint64(bits) {
		if signed {
			return i.mkval(c.Ite(c.Lt(a, c.Int64(0)), c.Int64(-1), c.Int64(0)), k)
		}
		return concreteOfKind(k, big0)
	}
	q, _ := i.floorDivPow2(a, uint(n))
	return i.mkval(q, k)
}

func (i *interpreter) symUnop(op token.Token, t types.Type, x sym) value {
	c := i.run.ctx
	switch op {
	case token.NOT:
		return i.mkval(c.Not(x.t), types.Bool)
	case token.SUB:
		if x.k == types.Float64 {
			return i.mkval(c.Neg(x.t), x.k)
		}
		return i.mkval(i.wrap(c.Neg(x.t), x.k), x.k)
	case token.XOR:
		// ^x = -x-1 for signed; max-x for unsigned
		_, signed := kindBits(x.k)
		if signed {
			return i.mkval(c.Sub(c.Neg(x.t), c.Int64(1)), x.k)
		}
		_, hi := kindRange(x.k)
		return i.mkval(c.Sub(c.Int(hi), x.t), x.k)
	}
	unsup("symbolic unop %s", op)
	return nil
}

// ratForm recognises r = N/D with Int terms N, D (D a positive constant or a symbolic term).
func (i *interpreter) ratForm(r *smt.Term) (n, d *smt.Term, ok bool) {
	c := i.run.ctx
	switch r.Op {
	case smt.OToReal:
		return r.Args[0], c.Int64(1), true
	case smt.ONeg:
		if n, d, ok := i.ratForm(r.Args[0]); ok {
			return c.Neg(n), d, true
		}
	case smt.OMul:
		if r.Args[0].IsConst() {
			if n, d, ok := i.ratForm(r.Args[1]); ok {
				k := r.Args[0].R
				num, den := k.Num(), k.Denom() // den > 0
				if dv, isC := d.ConstInt(); isC {
					return c.Mul(c.Int(num), n), c.Int(new(big.Int).Mul(den, dv)), true
				}
				if den.Cmp(big1) == 0 {
					return c.Mul(c.Int(num), n), d, true
				}
			}
		}
	case smt.ODivR:
		n1, d1, ok1 := i.ratForm(r.Args[0])
		n2, d2, ok2 := i.ratForm(r.Args[1])
		if ok1 && ok2 {
			// (n1/d1)/(n2/d2) = n1*d2 / (d1*n2)
			return c.Mul(n1, d2), c.Mul(d1, n2), true
		}
	}
	return nil, nil, false
}

// fround models one correctly rounded float64 operation whose exact real result is r.
func (i *interpreter) fround(r *smt.Term) *smt.Term {
	c := i.run.ctx
	if r.IsConst() {
		f, _ := r.R.Float64()
		if math.IsInf(f, 0) {
			unsup("float overflow")
		}
		return c.Real(new(big.Rat).SetFloat64(f))
	}
	key := fmt.Sprintf("fr_%d", r.ID)
	if v, ok := i.run.memo[key]; ok {
		return v
	}
	zero := c.Real(new(big.Rat))
	one := c.Real(big.NewRat(1, 1))
	absr := c.Ite(c.Ge(r, zero), r, c.Neg(r))
	eps := c.Mul(c.Real(ulpHalf), absr)
	half := c.Real(ratHalf)
	n, d, isRat := i.ratForm(r)
	if isRat {
		if dv, ok := d.ConstInt(); ok && dv.Cmp(big1) == 0 {
			// integer-valued exact result: representable up to 2^53
			if n.InRange(new(big.Int).Neg(two53), two53) {
				return r
			}
			if i.branch(c.And(c.Le(c.Int(new(big.Int).Neg(two53)), n), c.Le(n, c.Int(two53)))) {
				return r
			}
			v := c.Fresh("fv", smt.SReal, nil, nil)
			v.AddDef(c.And(c.Le(c.Sub(r, eps), v), c.Le(v, c.Add(r, eps))))
			v.Hint = c.Eq(v, r)
			i.run.stats.frounds++
			return v
		}
		// Normalise signs without forking (IEEE rounding is symmetric: fl(-x) = -fl(x)):
		// m = floor(2|n|/|d|) through the shared Euclid witnesses of (2|n|, |d|).
		negT := c.False
		if !(n.Lo != nil && n.Lo.Sign() >= 0) {
			if n.Hi != nil && n.Hi.Sign() < 0 {
				n = c.Neg(n)
				negT = c.True
			} else {
				nonneg := c.Le(c.Int64(0), n)
				negT = c.Not(nonneg)
				n = c.Abs(n) // sign-canonical: |n| and |-n| are one term, so their division witnesses are shared
			}
		}
		if dv, ok := d.ConstInt(); ok {
			if dv.Sign() == 0 {
				unsup("fround: zero denominator")
			}
			if dv.Sign() < 0 {
				d = c.Neg(d)
				negT = c.Not(negT)
			}
		} else if !(d.Lo != nil && d.Lo.Sign() > 0) {
			if d.Hi != nil && d.Hi.Sign() < 0 {
				d = c.Neg(d)
				negT = c.Not(negT)
			} else {
				dnonneg := c.Le(c.Int64(0), d)
				negT = c.Not(c.Eq(negT, c.Not(dnonneg))) // xor with "d is negative"
				d = c.Abs(d)
			}
		}
		ra := c.Mul(c.ToReal(n), c.DivR(one, c.ToReal(d))) // |r|
		if dv, ok := d.ConstInt(); ok {
			ra = c.Mul(c.Real(new(big.Rat).SetFrac(big1, dv)), c.ToReal(n))
		} else {
			ra = c.DivR(c.ToReal(n), c.ToReal(d))
		}
		key2 := fmt.Sprintf("frr_%d_%d", n.ID, d.ID)
		v, ok := i.run.memo[key2]
		if !ok {
			m, rem := i.euclid(c.Mul(c.Int64(2), n), d)
			v = c.Fresh("fv", smt.SReal, nil, nil)
			mr := c.ToReal(m)
			small := c.Le(ra, c.Real(ratTwo52))
			epsA := c.Mul(c.Real(ulpHalf), ra)
			v.AddDef(c.And(
				c.Implies(small, c.And(c.Le(c.Mul(half, mr), v), c.Le(v, c.Mul(half, c.Add(mr, one))))),
				c.Implies(c.And(small, c.Eq(rem, c.Int64(0))), c.Eq(v, ra)),
				c.Le(c.Sub(ra, epsA), v), c.Le(v, c.Add(ra, epsA)),
			))
			v.Hint = c.Eq(v, ra)
			i.run.memo[key2] = v
			i.run.stats.frounds++
		}
		return c.Ite(negT, c.Neg(v), v)
	}
	v := c.Fresh("fv", smt.SReal, nil, nil)
	m := c.Fresh("fm", smt.SInt, nil, nil)
	mr := c.ToReal(m)
	two := c.Real(ratTwo)
	r2 := c.Mul(two, r)
	m.AddDef(c.And(c.Le(mr, r2), c.Lt(r2, c.Add(mr, one))))
	small := c.Le(absr, c.Real(ratTwo52))
	v.AddDef(c.And(
		// monotone w.r.t. the representable half-integer grid
		c.Implies(small, c.And(c.Le(c.Mul(half, mr), v), c.Le(v, c.Mul(half, c.Add(mr, one))))),
		// exact on representable half-integers
		c.Implies(c.And(small, c.Eq(mr, r2)), c.Eq(v, r)),
		// standard model
		c.Le(c.Sub(r, eps), v), c.Le(v, c.Add(r, eps)),
	))
	v.Hint = c.Eq(v, r)
	i.run.memo[key] = v
	i.run.stats.frounds++
	return v
}

// intToFloat models float64(x) for an integer term.
func (i *interpreter) intToFloat(x *smt.Term) *smt.Term {
	c := i.run.ctx
	xr := c.ToReal(x)
	if x.InRange(new(big.Int).Neg(two53), two53) {
		return xr
	}
	if i.branch(c.And(c.Le(c.Int(new(big.Int).Neg(two53)), x), c.Le(x, c.Int(two53)))) {
		return xr
	}
	key := fmt.Sprintf("i2f_%d", x.ID)
	if v, ok := i.run.memo[key]; ok {
		return v
	}
	v := c.Fresh("fi", smt.SReal, nil, nil)
	zero := c.Real(new(big.Rat))
	absr := c.Ite(c.Ge(xr, zero), xr, c.Neg(xr))
	eps := c.Mul(c.Real(ulpHalf), absr)
	v.AddDef(c.And(
		c.Implies(c.Le(absr, c.Real(ratTwo53)), c.Eq(v, xr)),
		c.Le(c.Sub(xr, eps), v), c.Le(v, c.Add(xr, eps)),
	))
	i.run.memo[key] = v
	return v
}

// roundHalfAway returns the Int term of math.Round(r).
func (i *interpreter) roundHalfAway(r *smt.Term) *smt.Term {
	c := i.run.ctx
	if r.Op == smt.OToReal {
		return r.Args[0]
	}
	if r.IsConst() {
		f, _ := r.R.Float64()
		return c.Int(ratToInt(new(big.Rat).SetFloat64(math.Round(f))))
	}
	key := fmt.Sprintf("rha_%d", r.ID)
	if v, ok := i.run.memo[key]; ok {
		return v
	}
	n := c.Fresh("rn", smt.SInt, nil, nil)
	nr := c.ToReal(n)
	half := c.Real(ratHalf)
	zero := c.Real(new(big.Rat))
	n.AddDef(c.And(
		c.Implies(c.Ge(r, zero), c.And(c.Le(c.Sub(nr, half), r), c.Lt(r, c.Add(nr, half)))),
		c.Implies(c.Lt(r, zero), c.And(c.Lt(c.Sub(nr, half), r), c.Le(r, c.Add(nr, half)))),
	))
	i.run.memo[key] = n
	return n
}

// floorReal returns the Int term floor(r).
func (i *interpreter) floorReal(r *smt.Term) *smt.Term {
	c := i.run.ctx
	if r.Op == smt.OToReal {
		return r.Args[0]
	}
	if r.IsConst() {
		fl := new(big.Int).Div(r.R.Num(), r.R.Denom()) // Euclidean: floor for positive denom
		return c.Int(fl)
	}
	key := fmt.Sprintf("flr_%d", r.ID)
	if v, ok := i.run.memo[key]; ok {
		return v
	}
	n := c.Fresh("fl", smt.SInt, nil, nil)
	nr := c.ToReal(n)
	n.AddDef(c.And(c.Le(nr, r), c.Lt(r, c.Add(nr, c.Real(big.NewRat(1, 1))))))
	i.run.memo[key] = n
	return n
}

// truncReal returns the Int term of truncation toward zero.
func (i *interpreter) truncReal(r *smt.Term) *smt.Term {
	c := i.run.ctx
	if r.Op == smt.OToReal {
		return r.Args[0]
	}
	fl := i.floorReal(r)
	if r.IsConst() {
		if r.R.Sign() < 0 && !r.R.IsInt() {
			return c.Add(fl, c.Int64(1))
		}
		return fl
	}
	zero := c.Real(new(big.Rat))
	return c.Ite(c.Or(c.Ge(r, zero), c.Eq(c.ToReal(fl), r)), fl, c.Add(fl, c.Int64(1)))
}

func ratToInt(r *big.Rat) *big.Int {
	return new(big.Int).Quo(r.Num(), r.Denom())
}

// symConv converts a symbolic scalar to the destination basic kind.
func (i *interpreter) symConv(dst types.Type, x sym) value {
	db, ok := dst.Underlying().(*types.Basic)
	if !ok {
		unsup("conversion of symbolic scalar to %v", dst)
	}
	dk := db.Kind()
	switch {
	case x.k == types.Bool:
		return x
	case isIntKind(x.k) && isIntKind(dk):
		bits, _ := kindBits(dk)
		lo, hi := kindRange(dk)
		if x.t.InRange(lo, hi) {
			return i.mkval(x.t, dk)
		}
		if bits == 64 {
			return i.mkval(i.wrap(x.t, dk), dk)
		}
		// narrow: modulo 2^bits then re-sign
		_, r := i.floorDivPow2(x.t, bits)
		return i.mkval(i.fromUnsigned(r, dk), dk)
	case isIntKind(x.k) && dk == types.Float64:
		return i.mkval(i.intToFloat(x.t), dk)
	case x.k == types.Float64 && dk == types.Float64:
		return x
	case x.k == types.Float64 && isIntKind(dk):
		n := i.truncReal(x.t)
		lo, hi := kindRange(dk)
		if !n.InRange(lo, hi) {
			// out-of-range float→int is implementation-defined in Go; keep it in
			// range by assumption and count it.
			c := i.run.ctx
			i.run.assumeInternal(c.And(c.Le(c.Int(lo), n), c.Le(n, c.Int(hi))), "float->int in range")
			n = i.rangeVar(n, lo, hi)
		}
		return i.mkval(n, dk)
	case isIntKind(x.k) && dk == types.String:
		return i.runeToString(x)
	}
	unsup("symbolic conversion %v -> %v", x.k, dst)
	return nil
}

// rangeVar gives a term a tighter interval via an equal fresh variable.
func (i *interpreter) rangeVar(t *smt.Term, lo, hi *big.Int) *smt.Term {
	if t.InRange(lo, hi) {
		return t
	}
	c := i.run.ctx
	key := fmt.Sprintf("rv_%d_%s_%s", t.ID, lo, hi)
	if v, ok := i.run.memo[key]; ok {
		return v
	}
	v := c.Fresh("rv", smt.SInt, lo, hi)
	v.AddDef(c.Eq(v, t))
	i.run.memo[key] = v
	return v
}

// runeToString is string(r) for a symbolic integer: UTF-8 encoding (1..3 bytes; surrogates and
// larger code points are not encoded).
func (i *interpreter) runeToString(x sym) value {
	c := i.run.ctx
	r := x.t
	b := func(t *smt.Term, lo, hi int64) value {
		return i.mkval(i.rangeVar(t, big.NewInt(lo), big.NewInt(hi)), types.Uint8)
	}
	if r.InRange(big0, big.NewInt(0x7f)) || i.branch(c.And(c.Le(c.Int64(0), r), c.Lt(r, c.Int64(0x80)))) {
		return symstr{b(r, 0, 0x7f)}
	}
	if i.branch(c.And(c.Le(c.Int64(0x80), r), c.Lt(r, c.Int64(0x800)))) {
		q, rem := i.floorDivPow2(r, 6)
		return symstr{b(c.Add(c.Int64(0xC0), q), 0xC2, 0xDF), b(c.Add(c.Int64(0x80), rem), 0x80, 0xBF)}
	}
	if i.branch(c.And(c.Le(c.Int64(0x800), r), c.Lt(r, c.Int64(0xD800)))) {
		q1, r1 := i.floorDivPow2(r, 12)
		q2, r2 := i.floorDivPow2(r1, 6)
		return symstr{b(c.Add(c.Int64(0xE0), q1), 0xE0, 0xEF), b(c.Add(c.Int64(0x80), q2), 0x80, 0xBF), b(c.Add(c.Int64(0x80), r2), 0x80, 0xBF)}
	}
	unsup("string(rune) of a symbolic rune outside U+0000..U+D7FF")
	return nil
}
