package interp

// Native table import: registry look-ups (currency definitions, regime and
// addon definitions) are executed natively on the real, initialised packages
// linked into this binary, and the result graph is converted into interpreter
// values by reflection. The tables are therefore those of the current tree.

import (
	"fmt"
	"os"
	"go/types"
	"reflect"
	"regexp"
	"runtime"
	"sort"
	"strings"
	"unsafe"

	"github.com/asaskevich/govalidator"
	"golang.org/x/tools/go/ssa"

	_ "github.com/invopop/gobl" // registers every regime and addon
	"github.com/invopop/gobl/cbc"
	"github.com/invopop/gobl/currency"
	"github.com/invopop/gobl/l10n"
	"github.com/invopop/gobl/schema"
	"github.com/invopop/gobl/tax"
)

// nativeFunc stands for a Go func value that has no SSA counterpart in the loaded program.
type nativeFunc struct{ name string }

type nativeHandler func(i *interpreter, args []value) value

func strArg(v value) string {
	s, ok := v.(string)
	if !ok {
		unsup("native look-up with a symbolic key")
	}
	return s
}

// keyOrPick: a look-up key that is either concrete, or symbolic - then the path forks over the registered
// keys of the same length (in sorted order) and "none of them".
func (i *interpreter) keyOrPick(v value, keys []string) (string, bool) {
	if s, ok := v.(string); ok {
		return s, true
	}
	ss, ok := v.(symstr)
	if !ok {
		unsup("native look-up with a key of type %T", v)
	}
	sort.Strings(keys)
	for _, k := range keys {
		if len(k) != len(ss) {
			continue
		}
		if i.branch(i.eqTerm(types.Typ[types.String], ss, k)) {
			return k, true
		}
	}
	return "", false
}

var nativeHandlers = map[string]nativeHandler{
	"github.com/invopop/gobl/currency.Get": func(i *interpreter, args []value) value {
		var keys []string
		if _, sym := args[0].(symstr); sym {
			for _, d := range currency.Definitions() {
				keys = append(keys, string(d.ISOCode))
			}
		}
		k, found := i.keyOrPick(args[0], keys)
		if !found {
			return i.importNative(reflect.ValueOf((*currency.Def)(nil)))
		}
		return i.importNative(reflect.ValueOf(currency.Get(currency.Code(k))))
	},
	"github.com/invopop/gobl/currency.Definitions": func(i *interpreter, args []value) value {
		return i.importNative(reflect.ValueOf(currency.Definitions()))
	},
	"github.com/invopop/gobl/tax.RegimeDefFor": func(i *interpreter, args []value) value {
		k, found := i.keyOrPick(args[0], regimeKeys(args[0]))
		if !found {
			return i.importNative(reflect.ValueOf((*tax.RegimeDef)(nil)))
		}
		return i.importNative(reflect.ValueOf(tax.RegimeDefFor(l10n.Code(k))))
	},
	"(*github.com/invopop/gobl/tax.RegimeDefCollection).For": func(i *interpreter, args []value) value {
		k, found := i.keyOrPick(args[1], regimeKeys(args[1]))
		if !found {
			return i.importNative(reflect.ValueOf((*tax.RegimeDef)(nil)))
		}
		return i.importNative(reflect.ValueOf(tax.Regimes().For(l10n.Code(k))))
	},
	"github.com/invopop/gobl/tax.AllRegimeDefs": func(i *interpreter, args []value) value {
		return i.importNative(reflect.ValueOf(tax.AllRegimeDefs()))
	},
	"github.com/invopop/gobl/tax.AddonForKey": func(i *interpreter, args []value) value {
		return i.importNative(reflect.ValueOf(tax.AddonForKey(cbc.Key(strArg(args[0])))))
	},
	"github.com/invopop/gobl/tax.AllAddonDefs": func(i *interpreter, args []value) value {
		return i.importNative(reflect.ValueOf(tax.AllAddonDefs()))
	},
	"(github.com/invopop/gobl/cbc.Key).Validate": func(i *interpreter, args []value) value {
		if _, concrete := args[0].(string); !concrete {
			return notHandled{} // symbolic key: the real code runs
		}
		if err := cbc.Key(strArg(args[0])).Validate(); err != nil {
			return i.opaqueError(err.Error(), iface{})
		}
		return iface{}
	},
	// schema.Lookup(obj): the registered schema id of the object's (pointer-free) type, from the real registry
	"github.com/invopop/gobl/schema.Lookup": func(i *interpreter, args []value) value {
		a, ok := args[0].(iface)
		if !ok || a.t == nil {
			return ""
		}
		T := a.t
		for {
			p, isPtr := T.Underlying().(*types.Pointer)
			if _, named := T.(*types.Named); named || !isPtr {
				break
			}
			T = p.Elem()
		}
		n, ok := T.(*types.Named)
		if !ok || n.Obj().Pkg() == nil {
			return ""
		}
		for rt, id := range schema.Types() {
			if rt.PkgPath() == n.Obj().Pkg().Path() && rt.Name() == n.Obj().Name() {
				return string(id)
			}
		}
		return ""
	},
	// third-party string predicates of the validation library, on concrete strings only
	"github.com/asaskevich/govalidator.IsURL": func(i *interpreter, args []value) value {
		return govalidator.IsURL(strArg(args[0]))
	},
	"github.com/invopop/gobl/tax.ExtensionForKey": func(i *interpreter, args []value) value {
		return i.importNative(reflect.ValueOf(tax.ExtensionForKey(cbc.Key(strArg(args[0])))))
	},
}

func regimeKeys(v value) []string {
	if _, sym := v.(symstr); !sym {
		return nil
	}
	var keys []string
	for _, r := range tax.AllRegimeDefs() {
		keys = append(keys, string(r.Country))
	}
	return keys
}

func init() {
	for name, h := range nativeHandlers {
		h := h
		intrinsics[name] = func(fr *frame, args []value) value { return h(fr.i, args) }
	}
}

type nativeKey struct {
	p unsafe.Pointer
	t reflect.Type
}

func (i *interpreter) importNative(rv reflect.Value) value {
	if i.nativeMemo == nil {
		i.nativeMemo = map[nativeKey]*value{}
		i.registry = map[*value]bool{}
		i.typeMemo = map[reflect.Type]types.Type{}
	}
	i.importing = true
	defer func() { i.importing = false }()
	return i.conv(rv, 0)
}

var regexpPtrType = reflect.TypeOf((*regexp.Regexp)(nil))

func (i *interpreter) conv(rv reflect.Value, depth int) value {
	if depth > 200 {
		unsup("native import: graph too deep")
	}
	switch rv.Kind() {
	case reflect.Bool:
		return rv.Bool()
	case reflect.Int:
		return int(rv.Int())
	case reflect.Int8:
		return int8(rv.Int())
	case reflect.Int16:
		return int16(rv.Int())
	case reflect.Int32:
		return int32(rv.Int())
	case reflect.Int64:
		return rv.Int()
	case reflect.Uint:
		return uint(rv.Uint())
	case reflect.Uint8:
		return uint8(rv.Uint())
	case reflect.Uint16:
		return uint16(rv.Uint())
	case reflect.Uint32:
		return uint32(rv.Uint())
	case reflect.Uint64:
		return rv.Uint()
	case reflect.Uintptr:
		return uintptr(rv.Uint())
	case reflect.Float32:
		return float32(rv.Float())
	case reflect.Float64:
		return rv.Float()
	case reflect.String:
		return rv.String()
	case reflect.Ptr:
		if rv.IsNil() {
			return (*value)(nil)
		}
		if rv.Type() == regexpPtrType {
			re := rv.Interface().(*regexp.Regexp)
			return i.newRegexpObject(re.String())
		}
		k := nativeKey{unsafe.Pointer(rv.Pointer()), rv.Type()}
		if c, ok := i.nativeMemo[k]; ok {
			return c
		}
		cell := new(value)
		i.nativeMemo[k] = cell
		*cell = i.conv(rv.Elem(), depth+1)
		i.markRegistry(cell)
		return cell
	case reflect.Struct:
		if !rv.CanAddr() {
			tmp := reflect.New(rv.Type()).Elem()
			tmp.Set(rv)
			rv = tmp
		}
		n := rv.NumField()
		st := make(structure, n)
		for k := 0; k < n; k++ {
			f := rv.Field(k)
			if !f.CanInterface() {
				f = reflect.NewAt(f.Type(), unsafe.Pointer(f.UnsafeAddr())).Elem()
			}
			st[k] = i.conv(f, depth+1)
		}
		return st
	case reflect.Slice:
		if rv.IsNil() {
			return []value(nil)
		}
		out := make([]value, rv.Len())
		for k := range out {
			out[k] = i.conv(rv.Index(k), depth+1)
		}
		for k := range out {
			i.markRegistryCell(&out[k])
		}
		return out
	case reflect.Array:
		out := make(array, rv.Len())
		for k := range out {
			out[k] = i.conv(rv.Index(k), depth+1)
		}
		return out
	case reflect.Map:
		if rv.IsNil() {
			return (*omap)(nil)
		}
		kt := i.typeOf(rv.Type().Key())
		m := makeMap(kt, 0).(*omap)
		keys := rv.MapKeys()
		sort.Slice(keys, func(a, b int) bool { return fmt.Sprint(keys[a].Interface()) < fmt.Sprint(keys[b].Interface()) })
		for _, k := range keys {
			m.insert(i, i.conv(k, depth+1), i.conv(rv.MapIndex(k), depth+1))
		}
		m.frozen = "registry map"
		return m
	case reflect.Interface:
		if rv.IsNil() {
			return iface{}
		}
		e := rv.Elem()
		return iface{t: i.typeOf(e.Type()), v: i.conv(e, depth+1)}
	case reflect.Func:
		if rv.IsNil() {
			return (*ssa.Function)(nil)
		}
		rf := runtime.FuncForPC(rv.Pointer())
		name := rf.Name()
		if fn := i.findFuncByRuntimeName(name); fn != nil {
			return fn
		}
		if fn := i.findClosureByPos(name, rf, rv.Pointer()); fn != nil {
			return fn
		}
		return nativeFunc{name}
	case reflect.Chan, reflect.UnsafePointer:
		return poison{"native chan/unsafe pointer"}
	}
	unsup("native import of kind %v", rv.Kind())
	return nil
}

func (i *interpreter) markRegistry(cell *value) {
	i.markRegistryCell(cell)
}

func (i *interpreter) markRegistryCell(p *value) {
	switch c := (*p).(type) {
	case structure:
		for k := range c {
			i.markRegistryCell(&c[k])
		}
	case array:
		for k := range c {
			i.markRegistryCell(&c[k])
		}
	default:
		i.registry[p] = true
	}
}

func (i *interpreter) findFuncByRuntimeName(name string) *ssa.Function {
	// "pkg/path.Func", "pkg/path.(*T).Method", "pkg/path.T.Method"; closures are not mapped
	if strings.Contains(name, ".func") || strings.Contains(name, "glob.") || strings.HasSuffix(name, "-fm") {
		return nil
	}
	slash := strings.LastIndex(name, "/")
	dot := strings.Index(name[slash+1:], ".")
	if dot < 0 {
		return nil
	}
	pkgPath := name[:slash+1+dot]
	rest := name[slash+1+dot+1:]
	pkg := i.prog.ImportedPackage(pkgPath)
	if pkg == nil {
		return nil
	}
	if !strings.Contains(rest, ".") {
		return pkg.Func(rest)
	}
	parts := strings.SplitN(rest, ".", 2)
	recv, meth := parts[0], parts[1]
	ptr := false
	if strings.HasPrefix(recv, "(*") {
		ptr = true
		recv = strings.TrimSuffix(strings.TrimPrefix(recv, "(*"), ")")
	}
	tm := pkg.Type(recv)
	if tm == nil {
		return nil
	}
	var T types.Type = tm.Type()
	if ptr {
		T = types.NewPointer(T)
	}
	sel := i.prog.MethodSets.MethodSet(T).Lookup(pkg.Pkg, meth)
	if sel == nil {
		return nil
	}
	return i.prog.MethodValue(sel)
}

// findClosureByPos maps a native function literal to the SSA anonymous function declared at the same
// file and line (only literals without captured variables: their bindings cannot be imported).
func (i *interpreter) findClosureByPos(name string, rf *runtime.Func, pc uintptr) *ssa.Function {
	if !strings.Contains(name, ".func") {
		return nil
	}
	file, line := rf.FileLine(rf.Entry())
	if os.Getenv("GSX_DEBUG_CLOSURE") != "" {
		fmt.Fprintf(os.Stderr, "closure? %s %s:%d\n", name, file, line)
	}
	slash := strings.LastIndex(name, "/")
	dot := strings.Index(name[slash+1:], ".")
	if dot < 0 {
		return nil
	}
	pkg := i.prog.ImportedPackage(name[:slash+1+dot])
	if pkg == nil {
		return nil
	}
	if i.anonByPos == nil {
		i.anonByPos = map[string]*ssa.Function{}
	}
	key := fmt.Sprintf("%s:%d", file, line)
	if fn, ok := i.anonByPos[key]; ok {
		return fn
	}
	var found *ssa.Function
	n := 0
	var walk func(f *ssa.Function)
	walk = func(f *ssa.Function) {
		for _, a := range f.AnonFuncs {
			p := i.prog.Fset.Position(a.Pos())
			if p.Filename == file && p.Line == line {
				found = a
				n++
			}
			walk(a)
		}
	}
	for _, m := range pkg.Members {
		if f, ok := m.(*ssa.Function); ok {
			walk(f)
		}
	}
	if os.Getenv("GSX_DEBUG_CLOSURE") != "" {
		fmt.Fprintf(os.Stderr, "closure %s at %s: %d candidates (pkg %s)\n", name, key, n, pkg.Pkg.Path())
	}
	if n != 1 || len(found.FreeVars) > 0 {
		found = nil
	}
	i.anonByPos[key] = found
	return found
}

// typeOf maps a reflect.Type to the go/types type of the loaded program.
func (i *interpreter) typeOf(rt reflect.Type) types.Type {
	if t, ok := i.typeMemo[rt]; ok {
		return t
	}
	var t types.Type
	if rt.Name() != "" && rt.PkgPath() != "" {
		pkg := i.prog.ImportedPackage(rt.PkgPath())
		if pkg == nil {
			unsup("native import: package %s of type %s is not in the loaded program", rt.PkgPath(), rt)
		}
		name := rt.Name()
		if k := strings.Index(name, "["); k >= 0 {
			unsup("native import: generic type %s", rt)
		}
		m := pkg.Type(name)
		if m == nil {
			unsup("native import: type %s not found", rt)
		}
		t = m.Type()
	} else {
		switch rt.Kind() {
		case reflect.Bool:
			t = types.Typ[types.Bool]
		case reflect.Int:
			t = types.Typ[types.Int]
		case reflect.Int8:
			t = types.Typ[types.Int8]
		case reflect.Int16:
			t = types.Typ[types.Int16]
		case reflect.Int32:
			t = types.Typ[types.Int32]
		case reflect.Int64:
			t = types.Typ[types.Int64]
		case reflect.Uint:
			t = types.Typ[types.Uint]
		case reflect.Uint8:
			t = types.Typ[types.Uint8]
		case reflect.Uint16:
			t = types.Typ[types.Uint16]
		case reflect.Uint32:
			t = types.Typ[types.Uint32]
		case reflect.Uint64:
			t = types.Typ[types.Uint64]
		case reflect.Uintptr:
			t = types.Typ[types.Uintptr]
		case reflect.Float32:
			t = types.Typ[types.Float32]
		case reflect.Float64:
			t = types.Typ[types.Float64]
		case reflect.String:
			t = types.Typ[types.String]
		case reflect.Ptr:
			t = types.NewPointer(i.typeOf(rt.Elem()))
		case reflect.Slice:
			t = types.NewSlice(i.typeOf(rt.Elem()))
		case reflect.Array:
			t = types.NewArray(i.typeOf(rt.Elem()), int64(rt.Len()))
		case reflect.Map:
			t = types.NewMap(i.typeOf(rt.Key()), i.typeOf(rt.Elem()))
		case reflect.Interface:
			if rt.NumMethod() == 0 {
				t = types.NewInterfaceType(nil, nil)
			} else if rt.Name() == "error" {
				t = types.Universe.Lookup("error").Type()
			} else {
				unsup("native import: unnamed interface type %s", rt)
			}
		default:
			unsup("native import: unnamed type %s", rt)
		}
	}
	i.typeMemo[rt] = t
	return t
}
