package interp

// Insertion-ordered map used for every Go map value, so that iteration (and
// therefore re-execution of a path) is deterministic.

import (
	"go/types"
)

type hashable interface {
	hash(t types.Type) int
	eq(t types.Type, x interface{}) bool
}

type oentry struct {
	key, val value
	live     bool
}

type omap struct {
	kt      types.Type
	entries []oentry
	index   map[int][]int // hash -> entry indices (concrete keys)
	n       int
	frozen  string
}

func makeMap(kt types.Type, reserve int64) value {
	return &omap{kt: kt, index: map[int][]int{}}
}

func keyHash(kt types.Type, k value) (int, bool) {
	switch k := k.(type) {
	case sym, symstr:
		return 0, false
	case hashable:
		if hasSymInside(k) {
			return 0, false
		}
		return k.hash(kt), true
	}
	return hash(kt, kt, k), true
}

func hasSymInside(v value) bool {
	switch v := v.(type) {
	case sym, symstr:
		return true
	case structure:
		for _, f := range v {
			if hasSymInside(f) {
				return true
			}
		}
	case array:
		for _, f := range v {
			if hasSymInside(f) {
				return true
			}
		}
	case iface:
		return hasSymInside(v.v)
	}
	return false
}

// find returns the entry index for key k or -1.  Symbolic comparison is
// delegated to i.valueEq which may fork.
func (m *omap) find(i *interpreter, k value) int {
	if m == nil {
		return -1
	}
	if h, ok := keyHash(m.kt, k); ok && !m.hasSymKeys() {
		for _, idx := range m.index[h] {
			e := &m.entries[idx]
			if e.live && equals(m.kt, e.key, k) {
				return idx
			}
		}
		return -1
	}
	for idx := range m.entries {
		e := &m.entries[idx]
		if e.live && i.valueEq(m.kt, e.key, k) {
			return idx
		}
	}
	return -1
}

func (m *omap) hasSymKeys() bool {
	for idx := range m.entries {
		if m.entries[idx].live {
			if _, ok := keyHash(m.kt, m.entries[idx].key); !ok {
				return true
			}
		}
	}
	return false
}

func (m *omap) lookup(i *interpreter, k value) (value, bool) {
	idx := m.find(i, k)
	if idx < 0 {
		return nil, false
	}
	return m.entries[idx].val, true
}

func (m *omap) insert(i *interpreter, k, v value) {
	if m == nil {
		panic(runtimeError("assignment to entry in nil map"))
	}
	if m.frozen != "" {
		i.frozenWrite(m.frozen)
	}
	idx := m.find(i, k)
	if idx >= 0 {
		i.logMap(m, k, m.entries[idx].val, true)
		m.entries[idx].val = v
		return
	}
	i.logMap(m, k, nil, false)
	m.entries = append(m.entries, oentry{k, v, true})
	if h, ok := keyHash(m.kt, k); ok {
		m.index[h] = append(m.index[h], len(m.entries)-1)
	}
	m.n++
}

func (m *omap) delete(i *interpreter, k value) {
	if m == nil {
		return
	}
	idx := m.find(i, k)
	if idx < 0 {
		return
	}
	if m.frozen != "" {
		i.frozenWrite(m.frozen)
	}
	i.logMap(m, k, m.entries[idx].val, true)
	m.entries[idx].live = false
	m.n--
}

// rawSet / rawDelete are used by the undo log (no logging, no freezing).
func (m *omap) rawRestore(i *interpreter, k, old value, had bool) {
	idx := -1
	for j := range m.entries {
		e := &m.entries[j]
		if e.live && sameKey(m.kt, e.key, k) {
			idx = j
			break
		}
	}
	if had {
		if idx >= 0 {
			m.entries[idx].val = old
		} else {
			// was deleted: re-insert (order at end; acceptable for restoring pristine state
			// only when deletion happened to a pre-existing entry)
			for j := range m.entries {
				e := &m.entries[j]
				if !e.live && sameKey(m.kt, e.key, k) {
					e.live = true
					e.val = old
					m.n++
					return
				}
			}
			m.entries = append(m.entries, oentry{k, old, true})
			if h, ok := keyHash(m.kt, k); ok {
				m.index[h] = append(m.index[h], len(m.entries)-1)
			}
			m.n++
		}
		return
	}
	if idx >= 0 {
		m.entries[idx].live = false
		m.n--
		// drop trailing dead entries to keep the pristine layout
		for len(m.entries) > 0 && !m.entries[len(m.entries)-1].live {
			last := len(m.entries) - 1
			if h, ok := keyHash(m.kt, m.entries[last].key); ok {
				l := m.index[h]
				for x := range l {
					if l[x] == last {
						m.index[h] = append(l[:x], l[x+1:]...)
						break
					}
				}
			}
			m.entries = m.entries[:last]
		}
	}
}

// sameKey is structural identity without forking (used only by undo).
func sameKey(kt types.Type, a, b value) bool {
	if hasSymInside(a) || hasSymInside(b) {
		return symIdentical(a, b)
	}
	return equals(kt, a, b)
}

func symIdentical(a, b value) bool {
	switch a := a.(type) {
	case sym:
		bb, ok := b.(sym)
		return ok && bb.t == a.t
	case symstr:
		bb, ok := b.(symstr)
		if !ok || len(a) != len(bb) {
			return false
		}
		for i := range a {
			if !symIdentical(a[i], bb[i]) {
				return false
			}
		}
		return true
	case structure:
		bb, ok := b.(structure)
		if !ok || len(a) != len(bb) {
			return false
		}
		for i := range a {
			if !symIdentical(a[i], bb[i]) {
				return false
			}
		}
		return true
	case iface:
		bb, ok := b.(iface)
		return ok && sameType(a.t, bb.t) && symIdentical(a.v, bb.v)
	}
	defer func() { recover() }()
	return a == b
}

func (m *omap) len() int {
	if m == nil {
		return 0
	}
	return m.n
}

type omapIter struct {
	m   *omap
	pos int
	// snapshot of the number of entries at start is not taken: Go permits
	// seeing or not seeing entries added during iteration.
}

func (it *omapIter) next() tuple {
	for it.m != nil && it.pos < len(it.m.entries) {
		e := it.m.entries[it.pos]
		it.pos++
		if e.live {
			return tuple{true, e.key, e.val}
		}
	}
	return tuple{false, nil, nil}
}
