package interp

// Intrinsics: the harness runtime (vrt), math functions on the float model,
// and contract stubs for callees the interpreter cannot execute.

import (
	"strconv"
	"go/token"
	"encoding/json"
	"fmt"
	"go/types"
	"math"
	"math/big"
	"os"
	"path/filepath"
	"sort"
	"strings"
	"time"

	"golang.org/x/tools/go/ssa"

	"gsx/smt"
)

var universeError = types.Universe.Lookup("error").Type().Underlying().(*types.Interface)

type intrinsic func(fr *frame, args []value) value

var intrinsics = map[string]intrinsic{}

const VrtPath = "github.com/invopop/gobl/internal/vrt"

func init() {
	v := VrtPath + "."
	intrinsics[v+"Symbolic"] = func(fr *frame, args []value) value { return true }
	intrinsics[v+"Thorough"] = func(fr *frame, args []value) value { return fr.i.eng.Thorough }
	intrinsics[v+"Int64"] = func(fr *frame, args []value) value {
		lo, hi := kindRange(types.Int64)
		return fr.i.inputInt(args[0].(string), types.Int64, lo, hi)
	}
	intrinsics[v+"Int64In"] = func(fr *frame, args []value) value {
		return fr.i.inputInt(args[0].(string), types.Int64, big.NewInt(args[1].(int64)), big.NewInt(args[2].(int64)))
	}
	intrinsics[v+"IntIn"] = func(fr *frame, args []value) value {
		return fr.i.inputInt(args[0].(string), types.Int, big.NewInt(int64(args[1].(int))), big.NewInt(int64(args[2].(int))))
	}
	intrinsics[v+"Uint32In"] = func(fr *frame, args []value) value {
		return fr.i.inputInt(args[0].(string), types.Uint32, big.NewInt(int64(args[1].(uint32))), big.NewInt(int64(args[2].(uint32))))
	}
	intrinsics[v+"Byte"] = func(fr *frame, args []value) value {
		return fr.i.inputInt(args[0].(string), types.Uint8, big0, big.NewInt(255))
	}
	intrinsics[v+"ByteIn"] = func(fr *frame, args []value) value {
		return fr.i.inputInt(args[0].(string), types.Uint8, big.NewInt(int64(args[1].(uint8))), big.NewInt(int64(args[2].(uint8))))
	}
	intrinsics[v+"Bool"] = func(fr *frame, args []value) value {
		t := fr.i.run.input(args[0].(string), smt.SBool, nil, nil)
		return sym{t, types.Bool}
	}
	intrinsics[v+"Bytes"] = func(fr *frame, args []value) value {
		name, n := args[0].(string), args[1].(int)
		out := make([]value, n)
		for k := 0; k < n; k++ {
			out[k] = fr.i.inputInt(fmt.Sprintf("%s[%d]", name, k), types.Uint8, big0, big.NewInt(255))
		}
		return out
	}
	intrinsics[v+"String"] = func(fr *frame, args []value) value {
		name, n := args[0].(string), args[1].(int)
		out := make([]value, n)
		for k := 0; k < n; k++ {
			out[k] = fr.i.inputInt(fmt.Sprintf("%s[%d]", name, k), types.Uint8, big0, big.NewInt(255))
		}
		return normStr(out)
	}
	intrinsics[v+"ASCIIString"] = func(fr *frame, args []value) value {
		name, n := args[0].(string), args[1].(int)
		out := make([]value, n)
		for k := 0; k < n; k++ {
			out[k] = fr.i.inputInt(fmt.Sprintf("%s[%d]", name, k), types.Uint8, big0, big.NewInt(127))
		}
		return normStr(out)
	}
	intrinsics[v+"ASCIIBytes"] = func(fr *frame, args []value) value {
		name, n := args[0].(string), args[1].(int)
		out := make([]value, n)
		for k := 0; k < n; k++ {
			out[k] = fr.i.inputInt(fmt.Sprintf("%s[%d]", name, k), types.Uint8, big0, big.NewInt(127))
		}
		return out
	}
	intrinsics[v+"Choice"] = func(fr *frame, args []value) value {
		return fr.i.choice(args[0].(string), args[1].(int))
	}
	intrinsics[v+"Assume"] = func(fr *frame, args []value) value {
		r := fr.i.run
		r.res.Assumes++
		switch c := args[0].(type) {
		case bool:
			if !c {
				r.abort("infeasible", "assumption false")
			}
		case sym:
			// asserted without an immediate feasibility query; the path condition is
			// checked once at the end of the path and an infeasible path is discarded
			// together with everything "discharged" on it
			r.assertPC(c.t)
			r.lazyAssumes++
		}
		return nil
	}
	intrinsics[v+"Assert"] = func(fr *frame, args []value) value {
		fr.i.obligation(fr.i.term(args[0]), args[1].(string))
		return nil
	}
	intrinsics[v+"Known"] = func(fr *frame, args []value) value {
		r := fr.i.run
		r.known = append(r.known, knownClass{args[0].(string), fr.i.term(args[1])})
		return nil
	}
	intrinsics[v+"And"] = func(fr *frame, args []value) value {
		return fr.i.mkval(fr.i.run.ctx.And(fr.i.term(args[0]), fr.i.term(args[1])), types.Bool)
	}
	intrinsics[v+"Or"] = func(fr *frame, args []value) value {
		return fr.i.mkval(fr.i.run.ctx.Or(fr.i.term(args[0]), fr.i.term(args[1])), types.Bool)
	}
	intrinsics[v+"Implies"] = func(fr *frame, args []value) value {
		return fr.i.mkval(fr.i.run.ctx.Implies(fr.i.term(args[0]), fr.i.term(args[1])), types.Bool)
	}
	intrinsics[v+"Iff"] = func(fr *frame, args []value) value {
		return fr.i.mkval(fr.i.run.ctx.Eq(fr.i.term(args[0]), fr.i.term(args[1])), types.Bool)
	}
	intrinsics[v+"IteInt64"] = func(fr *frame, args []value) value {
		return fr.i.mkval(fr.i.run.ctx.Ite(fr.i.term(args[0]), fr.i.term(args[1]), fr.i.term(args[2])), types.Int64)
	}
	intrinsics[v+"Unwind"] = func(fr *frame, args []value) value {
		fr.i.run.unwind = args[0].(int)
		return nil
	}
	intrinsics[v+"Unreachable"] = func(fr *frame, args []value) value {
		fr.i.obligation(fr.i.run.ctx.False, args[0].(string))
		return nil
	}
	intrinsics[v+"Reach"] = func(fr *frame, args []value) value {
		fr.i.run.res.AssertsSeen["reach:"+args[0].(string)]++
		fr.i.run.res.AssertsOK["reach:"+args[0].(string)]++
		fr.i.run.res.Trivial++
		return nil
	}
	intrinsics[v+"Freeze"] = func(fr *frame, args []value) value {
		fr.i.freeze(args[0], args[1].(string), map[interface{}]bool{})
		return nil
	}
	intrinsics[v+"Observe"] = func(fr *frame, args []value) value {
		fr.i.run.res.Observes[args[0].(string)] = toString(args[1])
		return nil
	}
	intrinsics[v+"Concretize"] = func(fr *frame, args []value) value {
		if s, ok := args[0].(sym); ok {
			return int(fr.i.concretize(s.t, "vrt.Concretize").Int64())
		}
		return args[0]
	}
	// exact integer helpers for reference models (mathematical integers, no wrap)
	intrinsics[v+"DivFloor"] = func(fr *frame, args []value) value {
		// floor(a / b) for b > 0 concrete or symbolic
		i := fr.i
		c := i.run.ctx
		a, b := i.term(args[0]), i.term(args[1])
		q, r := i.euclid(a, b)
		// truncated → floor
		return i.mkval(c.Ite(c.And(c.Lt(r, c.Int64(0))), c.Sub(q, c.Int64(1)), q), types.Int64)
	}

	intrinsics[v+"MulFits"] = func(fr *frame, args []value) value {
		i := fr.i
		c := i.run.ctx
		p := c.Mul(i.term(args[0]), i.term(args[1]))
		b := i.term(args[2])
		return i.mkval(c.And(c.Lt(c.Neg(b), p), c.Lt(p, b)), types.Bool)
	}
	intrinsics[v+"SchemaPattern"] = func(fr *frame, args []value) value {
		return schemaPattern(args[0].(string))
	}
	intrinsics[v+"SchemaValue"] = func(fr *frame, args []value) value {
		return schemaValue(args[0].(string), args[1].(string))
	}
	intrinsics[v+"PublishedExtension"] = func(fr *frame, args []value) value {
		vals, pat, found := publishedExtension(args[0].(string))
		var out []value
		for _, s := range vals {
			out = append(out, s)
		}
		return tuple{out, pat, found}
	}
	// Orient64(x) = (canonical term, negated): x == canon or x == -canon; the flag is syntactic (concrete)
	intrinsics[v+"Orient64"] = func(fr *frame, args []value) value {
		if x, ok := args[0].(int64); ok {
			return tuple{x, false}
		}
		cn, neg := fr.i.run.ctx.Orient(fr.i.term(args[0]))
		return tuple{fr.i.mkval(cn, types.Int64), neg}
	}
	caseConv := func(upper bool) func(fr *frame, args []value) value {
		return func(fr *frame, args []value) value {
			ss, ok := args[0].(symstr)
			if !ok {
				return notHandled{}
			}
			c := fr.i.run.ctx
			out := make([]value, len(ss))
			for k, b := range ss {
				switch b := b.(type) {
				case uint8:
					if b >= 0x80 {
						unsup("strings.ToUpper/ToLower on a symbolic string with non-ASCII bytes")
					}
					if upper && b >= 'a' && b <= 'z' {
						b -= 32
					} else if !upper && b >= 'A' && b <= 'Z' {
						b += 32
					}
					out[k] = b
				case sym:
					if b.t.Hi == nil || b.t.Hi.Int64() >= 0x80 {
						unsup("strings.ToUpper/ToLower on a symbolic string whose bytes are not known to be ASCII")
					}
					lo, hi, d := int64('a'), int64('z'), int64(-32)
					if !upper {
						lo, hi, d = 'A', 'Z', 32
					}
					t := c.Ite(c.And(c.Le(c.Int64(lo), b.t), c.Le(b.t, c.Int64(hi))), c.Add(b.t, c.Int64(d)), b.t)
					// case conversion of an ASCII byte is an ASCII byte (the interval of the ite is coarser)
					if t.Hi == nil || t.Hi.Int64() > 127 {
						t.Hi = big.NewInt(127)
					}
					if t.Lo == nil || t.Lo.Sign() < 0 {
						t.Lo = big.NewInt(0)
					}
					out[k] = fr.i.mkval(t, types.Uint8)
				default:
					unsup("strings.ToUpper/ToLower: unexpected byte %T", b)
				}
			}
			return normStr(out)
		}
	}
	intrinsics["strings.ToUpper"] = caseConv(true)
	intrinsics["strings.ToLower"] = caseConv(false)
	intrinsics[v+"Abs64"] = func(fr *frame, args []value) value {
		if x, ok := args[0].(int64); ok {
			if x < 0 {
				return -x
			}
			return x
		}
		return fr.i.mkval(fr.i.run.ctx.Abs(fr.i.term(args[0])), types.Int64)
	}
	intrinsics[v+"Published"] = func(fr *frame, args []value) value {
		var out []value
		for _, s := range published(args[0].(string), args[1].(string)) {
			out = append(out, s)
		}
		return out
	}
	intrinsics["math.Round"] = func(fr *frame, args []value) value {
		if f, ok := args[0].(float64); ok {
			return math.Round(f)
		}
		i := fr.i
		return i.mkval(i.run.ctx.ToReal(i.roundHalfAway(i.term(args[0]))), types.Float64)
	}
	intrinsics["math.Floor"] = func(fr *frame, args []value) value {
		if f, ok := args[0].(float64); ok {
			return math.Floor(f)
		}
		i := fr.i
		return i.mkval(i.run.ctx.ToReal(i.floorReal(i.term(args[0]))), types.Float64)
	}
	intrinsics["math.Trunc"] = func(fr *frame, args []value) value {
		if f, ok := args[0].(float64); ok {
			return math.Trunc(f)
		}
		i := fr.i
		return i.mkval(i.run.ctx.ToReal(i.truncReal(i.term(args[0]))), types.Float64)
	}
	intrinsics["math.Abs"] = func(fr *frame, args []value) value {
		if f, ok := args[0].(float64); ok {
			return math.Abs(f)
		}
		i := fr.i
		c := i.run.ctx
		t := i.term(args[0])
		return i.mkval(c.Ite(c.Ge(t, c.Real(new(big.Rat))), t, c.Neg(t)), types.Float64)
	}
	intrinsics["math.Mod"] = func(fr *frame, args []value) value {
		x, xok := args[0].(float64)
		y, yok := args[1].(float64)
		if xok && yok {
			return math.Mod(x, y)
		}
		// only integer-valued operands are modelled: x mod y with truncation (sign of x)
		i := fr.i
		c := i.run.ctx
		xt, yt := i.term(args[0]), i.term(args[1])
		if xt.Op != smt.OToReal && !(xt.IsConst() && xt.R.IsInt()) || yt.Op != smt.OToReal && !(yt.IsConst() && yt.R.IsInt()) {
			unsup("math.Mod on non-integer-valued symbolic floats")
		}
		xi, yi := realToIntTerm(c, xt), realToIntTerm(c, yt)
		_, r := i.euclid(xi, yi)
		return i.mkval(c.ToReal(r), types.Float64)
	}
	intrinsics["math.Pow"] = func(fr *frame, args []value) value {
		x, xok := args[0].(float64)
		y, yok := args[1].(float64)
		if xok && yok {
			return math.Pow(x, y)
		}
		unsup("math.Pow on symbolic operands")
		return nil
	}
	intrinsics["math.IsNaN"] = func(fr *frame, args []value) value {
		if f, ok := args[0].(float64); ok {
			return math.IsNaN(f)
		}
		return false
	}
	intrinsics["math.IsInf"] = func(fr *frame, args []value) value {
		if f, ok := args[0].(float64); ok {
			return math.IsInf(f, args[1].(int))
		}
		return false
	}

	// strconv.formatBits(dst, u, base, neg, append_) for symbolic u in base 10: digits by Euclid witnesses
	intrinsics["strconv.formatBits"] = func(fr *frame, args []value) value {
		i := fr.i
		us, usym := args[1].(sym)
		ns, nsym := args[3].(sym)
		if !usym && !nsym {
			return notHandled{}
		}
		if b, ok := args[2].(int); !ok || b != 10 {
			return notHandled{}
		}
		c := i.run.ctx
		neg := false
		if nsym {
			neg = i.branch(ns.t)
		} else {
			neg = args[3].(bool)
		}
		var u *smt.Term
		if usym {
			u = us.t
		} else {
			u = i.term(args[1])
		}
		if neg {
			// u = -u on uint64
			u = i.wrap(c.Neg(u), types.Uint64)
		}
		// number of digits
		n := 1
		for ; n < 20; n++ {
			if i.branch(c.Lt(u, c.Int(new(big.Int).Exp(big.NewInt(10), big.NewInt(int64(n)), nil)))) {
				break
			}
		}
		qs := make([]*smt.Term, n+1)
		qs[0] = u
		qs[n] = c.Int64(0)
		for k := 1; k < n; k++ {
			q, _ := i.euclid(u, c.Int(new(big.Int).Exp(big.NewInt(10), big.NewInt(int64(k)), nil)))
			qs[k] = q
		}
		var out []value
		if neg {
			out = append(out, uint8('-'))
		}
		for k := n - 1; k >= 0; k-- {
			d := c.Sub(qs[k], c.Mul(c.Int64(10), qs[k+1]))
			var b *smt.Term
			if dv, ok := d.ConstInt(); ok {
				b = c.Int(new(big.Int).Add(dv, big.NewInt('0')))
			} else {
				b = i.rangeVar(c.Add(d, c.Int64('0')), big.NewInt('0'), big.NewInt('9'))
			}
			out = append(out, i.mkval(b, types.Uint8))
		}
		if args[4].(bool) {
			dst := args[0].([]value)
			i.logAppend(dst, len(out))
			return tuple{append(dst, out...), ""}
		}
		return tuple{[]value(nil), normStr(out)}
	}

	// public strconv formatters with a symbolic argument go straight to the digit model
	symFmt := func(fr *frame, u value, signed bool) value {
		neg := value(false)
		if signed {
			c := fr.i.run.ctx
			us := u.(sym)
			neg = fr.i.mkval(c.Lt(us.t, c.Int64(0)), types.Bool)
			u = fr.i.mkval(fr.i.toUnsigned(us.t, types.Int64), types.Uint64)
		}
		res := intrinsics["strconv.formatBits"](fr, []value{[]value(nil), u, 10, neg, false})
		return res.(tuple)[1]
	}
	intrinsics["strconv.FormatInt"] = func(fr *frame, args []value) value {
		if b, ok := args[1].(int); !ok || b != 10 || !isSym(args[0]) {
			return notHandled{}
		}
		return symFmt(fr, args[0], true)
	}
	intrinsics["strconv.FormatUint"] = func(fr *frame, args []value) value {
		if b, ok := args[1].(int); !ok || b != 10 || !isSym(args[0]) {
			return notHandled{}
		}
		return symFmt(fr, args[0], false)
	}
	intrinsics["strconv.Itoa"] = func(fr *frame, args []value) value {
		if !isSym(args[0]) {
			return notHandled{}
		}
		return symFmt(fr, args[0], true)
	}

	// UTF-8 decoding: ASCII fast path without the bit tricks of the real code
	decodeASCII := func(fr *frame, first value) value {
		b, ok := first.(sym)
		if !ok {
			return notHandled{}
		}
		c := fr.i.run.ctx
		if b.t.InRange(big0, big.NewInt(0x7f)) || fr.i.branch(c.Lt(b.t, c.Int64(0x80))) {
			return tuple{fr.i.mkval(b.t, types.Int32), 1}
		}
		return notHandled{}
	}
	intrinsics["unicode/utf8.DecodeRuneInString"] = func(fr *frame, args []value) value {
		s, ok := args[0].(symstr)
		if !ok || len(s) == 0 {
			return notHandled{}
		}
		return decodeASCII(fr, s[0])
	}
	intrinsics["unicode/utf8.DecodeRune"] = func(fr *frame, args []value) value {
		s, ok := args[0].([]value)
		if !ok || len(s) == 0 {
			return notHandled{}
		}
		return decodeASCII(fr, s[0])
	}

	// civil.Date.IsValid: natively for concrete dates, Gregorian calendar formula for symbolic ones
	intrinsics["(cloud.google.com/go/civil.Date).IsValid"] = func(fr *frame, args []value) value {
		i := fr.i
		st := args[0].(structure)
		if !hasSymInside(st) {
			y, m, d := st[0].(int), int(asInt64(st[1])), st[2].(int)
			t := time.Date(y, time.Month(m), d, 0, 0, 0, 0, time.UTC)
			return t.Year() == y && int(t.Month()) == m && t.Day() == d
		}
		c := i.run.ctx
		y, m, d := i.term(st[0]), i.term(st[1]), i.term(st[2])
		_, r4 := i.euclid(y, c.Int64(4))
		_, r100 := i.euclid(y, c.Int64(100))
		_, r400 := i.euclid(y, c.Int64(400))
		zero := c.Int64(0)
		leap := c.And(c.Eq(r4, zero), c.Or(c.Not(c.Eq(r100, zero)), c.Eq(r400, zero)))
		is := func(k int64) *smt.Term { return c.Eq(m, c.Int64(k)) }
		dim := c.Ite(is(2), c.Ite(leap, c.Int64(29), c.Int64(28)),
			c.Ite(c.Or(is(4), is(6), is(9), is(11)), c.Int64(30), c.Int64(31)))
		ok := c.And(c.Le(c.Int64(1), m), c.Le(m, c.Int64(12)), c.Le(c.Int64(1), d), c.Le(d, dim))
		return i.mkval(ok, types.Bool)
	}
	// civil.Time.IsValid: the time.Date round trip holds exactly for in-range fields
	intrinsics["(cloud.google.com/go/civil.Time).IsValid"] = func(fr *frame, args []value) value {
		i := fr.i
		st := args[0].(structure)
		if !hasSymInside(st) {
			return notHandled{}
		}
		c := i.run.ctx
		in := func(v value, hi int64) *smt.Term {
			t := i.term(v)
			return c.And(c.Le(c.Int64(0), t), c.Le(t, c.Int64(hi)))
		}
		return i.mkval(c.And(in(st[0], 23), in(st[1], 59), in(st[2], 59), in(st[3], 999999999)), types.Bool)
	}

	// ---- JWS / parser contract stubs (symbolic runs only; native replays use the real thing)
	intrinsics[v+"BindSignature"] = func(fr *frame, args []value) value {
		r := fr.i.run
		if r.ghostSig == nil {
			r.ghostSig = map[*value]ghostSig{}
		}
		sig := args[0].(iface).v.(*value)
		key, _ := args[1].(iface).v.(*value)
		pay := args[2].(iface).v.(*value)
		r.ghostSig[sig] = ghostSig{key, pay}
		return nil
	}
	// NewSignature: a signature object that carries a JWS (non-nil) and is bound to (key, payload)
	intrinsics[v+"NewSignature"] = func(fr *frame, args []value) value {
		r := fr.i.run
		if r.ghostSig == nil {
			r.ghostSig = map[*value]ghostSig{}
		}
		dp := fr.i.prog.ImportedPackage("github.com/invopop/gobl/dsig")
		jp := fr.i.prog.ImportedPackage("github.com/go-jose/go-jose/v4")
		if dp == nil || jp == nil {
			unsup("dsig / go-jose not loaded")
		}
		var jws value = zero(jp.Type("JSONWebSignature").Type())
		st := zero(dp.Type("Signature").Type()).(structure)
		st[0] = &jws
		var cell value = st
		key, _ := args[0].(iface).v.(*value)
		pay := args[1].(iface).v.(*value)
		r.ghostSig[&cell] = ghostSig{key, pay}
		return iface{t: types.NewPointer(dp.Type("Signature").Type()), v: &cell}
	}
	// BindKeyPair(priv, pub): the public half of a private key object (contract stubs of dsig key methods)
	intrinsics[v+"BindKeyPair"] = func(fr *frame, args []value) value {
		r := fr.i.run
		if r.ghostKeys == nil {
			r.ghostKeys = map[*value]*value{}
		}
		priv, _ := args[0].(iface).v.(*value)
		pub, _ := args[1].(iface).v.(*value)
		r.ghostKeys[priv] = pub
		return nil
	}
	intrinsics["(*github.com/invopop/gobl/dsig.PrivateKey).Public"] = func(fr *frame, args []value) value {
		priv, _ := args[0].(*value)
		if priv == nil {
			panic(runtimeError("invalid memory address or nil pointer dereference"))
		}
		pub, ok := fr.i.run.ghostKeys[priv]
		if !ok {
			return notHandled{}
		}
		return pub
	}
	// Sign: contract stub - a signature carrying a JWS, bound to the key's public half and to a deep private
	// copy of the payload as it is now (what serialising it into the JWS would capture)
	intrinsics["(*github.com/invopop/gobl/dsig.PrivateKey).Sign"] = func(fr *frame, args []value) value {
		r := fr.i.run
		priv, _ := args[0].(*value)
		if priv == nil {
			panic(runtimeError("invalid memory address or nil pointer dereference"))
		}
		pub, ok := r.ghostKeys[priv]
		if !ok {
			return notHandled{}
		}
		if f, ok := r.ghostFlags["sign.fails"]; ok {
			if b, isB := f.(bool); isB && b {
				return tuple{(*value)(nil), fr.i.opaqueError("signing failed", iface{})}
			}
		}
		pay, ok := args[1].(iface)
		if !ok || pay.t == nil {
			unsup("Sign of a nil payload")
		}
		pp, _ := pay.v.(*value)
		if pp == nil {
			unsup("Sign of a nil pointer payload")
		}
		cp := deepCopyValue(pp, map[*value]*value{}).(*value)
		dp := fr.i.prog.ImportedPackage("github.com/invopop/gobl/dsig")
		jp := fr.i.prog.ImportedPackage("github.com/go-jose/go-jose/v4")
		if dp == nil || jp == nil {
			unsup("dsig / go-jose not loaded")
		}
		var jws value = zero(jp.Type("JSONWebSignature").Type())
		st := zero(dp.Type("Signature").Type()).(structure)
		st[0] = &jws
		var cell value = st
		if r.ghostSig == nil {
			r.ghostSig = map[*value]ghostSig{}
		}
		r.ghostSig[&cell] = ghostSig{pub, cp}
		return tuple{&cell, iface{}}
	}
	intrinsics[v+"BindParsed"] = func(fr *frame, args []value) value {
		fr.i.run.ghostParsed = args[0].(iface).v
		return nil
	}
	intrinsics[v+"SetStub"] = func(fr *frame, args []value) value {
		r := fr.i.run
		if r.ghostFlags == nil {
			r.ghostFlags = map[string]value{}
		}
		v := args[1]
		if iv, ok := v.(iface); ok {
			v = iv.v
		}
		r.ghostFlags[args[0].(string)] = v
		return nil
	}
	copyInto := func(fr *frame, dst value, src *value) {
		d, ok := dst.(iface)
		if !ok {
			return
		}
		dp, ok := d.v.(*value)
		if !ok || dp == nil {
			return
		}
		ss, ok1 := (*src).(structure)
		ds, ok2 := (*dp).(structure)
		if !ok1 || !ok2 || len(ss) != len(ds) {
			return // payload of another shape: JSON unmarshalling finds no matching members
		}
		for k := range ss {
			fr.i.logStore(&ds[k])
			ds[k] = ss[k]
		}
	}
	intrinsics["(*github.com/invopop/gobl/dsig.Signature).VerifyPayload"] = func(fr *frame, args []value) value {
		sig := args[0].(*value)
		if sig == nil {
			panic(runtimeError("invalid memory address or nil pointer dereference"))
		}
		g, ok := fr.i.run.ghostSig[sig]
		if !ok {
			// a signature entry without a JWS inside (not produced by signing)
			if st, isSt := (*sig).(structure); isSt && st[0] == (*value)(nil) {
				panic(runtimeError("invalid memory address or nil pointer dereference"))
			}
			unsup("VerifyPayload on a signature that was not bound by the harness")
		}
		key, _ := args[1].(*value)
		if key == nil || key != g.key {
			return fr.i.opaqueError("go-jose/go-jose: error in cryptographic primitive", iface{})
		}
		copyInto(fr, args[2], g.payload)
		return iface{}
	}
	intrinsics["(*github.com/invopop/gobl/dsig.Signature).UnsafePayload"] = func(fr *frame, args []value) value {
		sig := args[0].(*value)
		if sig == nil {
			panic(runtimeError("invalid memory address or nil pointer dereference"))
		}
		g, ok := fr.i.run.ghostSig[sig]
		if !ok {
			if st, isSt := (*sig).(structure); isSt && st[0] == (*value)(nil) {
				panic(runtimeError("invalid memory address or nil pointer dereference"))
			}
			unsup("UnsafePayload on a signature that was not bound by the harness")
		}
		copyInto(fr, args[1], g.payload)
		return iface{}
	}
	intrinsics["github.com/invopop/yaml.Unmarshal"] = func(fr *frame, args []value) value {
		r := fr.i.run
		if r.ghostParsed == nil {
			unsup("yaml.Unmarshal without a bound parse result")
		}
		src, ok := r.ghostParsed.(*value)
		if !ok {
			unsup("bound parse result is not a pointer")
		}
		copyInto(fr, args[1], src)
		return iface{}
	}
	intrinsics["io.ReadAll"] = func(fr *frame, args []value) value {
		if fr.i.run.ghostParsed == nil {
			return notHandled{}
		}
		return tuple{[]value{uint8('{'), uint8('}')}, iface{}}
	}
	intrinsics["(*github.com/invopop/gobl.Envelope).Validate"] = func(fr *frame, args []value) value {
		r := fr.i.run
		if f, ok := r.ghostFlags["envelope.Validate"]; ok {
			if b, isB := f.(bool); isB && b {
				return iface{}
			}
			return fr.i.opaqueError("validation", iface{})
		}
		return notHandled{}
	}

	// errors.Is without reflectlite: follow Unwrap() error chains, compare comparable dynamic types
	intrinsics["errors.Is"] = func(fr *frame, args []value) value {
		err, ok1 := args[0].(iface)
		target, ok2 := args[1].(iface)
		if !ok1 || !ok2 || err.t == nil || target.t == nil {
			return ok1 && ok2 && err.t == nil && target.t == nil
		}
		for depth := 0; depth < 16 && err.t != nil; depth++ {
			if types.Identical(err.t, target.t) && types.Comparable(err.t) {
				if fr.i.valueEq(err.t, err.v, target.v) {
					return true
				}
			}
			ms := fr.i.prog.MethodSets.MethodSet(err.t)
			var unwrap *ssa.Function
			for k := 0; k < ms.Len(); k++ {
				if sel := ms.At(k); sel.Obj().Name() == "Unwrap" {
					if sig, ok := sel.Type().(*types.Signature); ok && sig.Params().Len() == 0 && sig.Results().Len() == 1 {
						if _, isSlice := sig.Results().At(0).Type().Underlying().(*types.Slice); !isSlice {
							unwrap = fr.i.prog.MethodValue(sel)
						}
					}
				}
			}
			if unwrap == nil {
				return false
			}
			next, ok := call(fr.i, fr, 0, unwrap, []value{err.v}).(iface)
			if !ok {
				return false
			}
			err = next
		}
		return false
	}

	// sort.Slice / sort.SliceStable without reflectlite: stable insertion sort driven by the less closure
	sortSlice := func(fr *frame, args []value) value {
		x, ok := args[0].(iface)
		if !ok {
			unsup("sort.Slice on a non-interface argument")
		}
		cells, ok := x.v.([]value)
		if !ok {
			unsup("sort.Slice on %T", x.v)
		}
		less := args[1]
		lt := func(a, b int) bool {
			r := call(fr.i, fr, 0, less, []value{a, b})
			switch r := r.(type) {
			case bool:
				return r
			case sym:
				return fr.i.branch(r.t)
			}
			unsup("sort less function returned %T", r)
			return false
		}
		for a := 1; a < len(cells); a++ {
			for b := a; b > 0 && lt(b, b-1); b-- {
				fr.i.logStore(&cells[b])
				fr.i.logStore(&cells[b-1])
				cells[b], cells[b-1] = cells[b-1], cells[b]
			}
		}
		return nil
	}
	intrinsics["sort.SliceStable"] = sortSlice
	intrinsics["sort.Slice"] = sortSlice
	// strconv.AppendFloat: contract stub — the text comes from the harness (constrained to the documented format)
	intrinsics["strconv.AppendFloat"] = func(fr *frame, args []value) value {
		r := fr.i.run
		g, ok := r.ghostFlags["strconv.AppendFloat"]
		if !ok {
			return notHandled{}
		}
		dst := args[0].([]value)
		var extra []value
		switch t := g.(type) {
		case string:
			extra = strBytes(t)
		case symstr:
			extra = []value(t)
		case []value:
			extra = t
		default:
			unsup("AppendFloat stub value of type %T", g)
		}
		fr.i.logAppend(dst, len(extra))
		return append(dst, extra...)
	}

	// reflect.ValueOf is only met while building error values (json.UnsupportedValueError): zero Value
	intrinsics["reflect.ValueOf"] = func(fr *frame, args []value) value {
		if !anySym(args) {
			return notHandled{} // the interpreter's own reflect support handles concrete values
		}
		pkg := fr.i.prog.ImportedPackage("reflect")
		if pkg == nil || pkg.Type("Value") == nil {
			unsup("reflect.ValueOf")
		}
		return zero(pkg.Type("Value").Type())
	}

	// encoding/json.Decoder token source: contract stub fed by the harness (vrt.SetStub("json.tokens", []any{...}))
	intrinsics["encoding/json.NewDecoder"] = func(fr *frame, args []value) value {
		if _, ok := fr.i.run.ghostFlags["json.tokens"]; !ok {
			return notHandled{}
		}
		pkg := fr.i.prog.ImportedPackage("encoding/json")
		var cell value = zero(pkg.Type("Decoder").Type())
		fr.i.run.ghostFlags["json.pos"] = 0
		return &cell
	}
	intrinsics["(*encoding/json.Decoder).UseNumber"] = func(fr *frame, args []value) value {
		if _, ok := fr.i.run.ghostFlags["json.tokens"]; !ok {
			return notHandled{}
		}
		return nil
	}
	intrinsics["(*encoding/json.Decoder).Token"] = func(fr *frame, args []value) value {
		r := fr.i.run
		toks, ok := r.ghostFlags["json.tokens"]
		if !ok {
			return notHandled{}
		}
		list := toks.([]value)
		pos := r.ghostFlags["json.pos"].(int)
		if pos >= len(list) {
			iop := fr.i.prog.ImportedPackage("io")
			eof := *fr.i.globals[iop.Var("EOF")]
			return tuple{iface{}, eof}
		}
		if t, isI := list[pos].(iface); isI && t.t != nil {
			if n, named := t.t.(*types.Named); named && n.Obj().Name() == "StraySyntax" {
				return tuple{iface{}, fr.i.opaqueError("invalid character", iface{})}
			}
		}
		r.ghostFlags["json.pos"] = pos + 1
		return tuple{list[pos], iface{}}
	}

	// Decoder.More (documented: "reports whether there is another element in the current array or object being
	// parsed"; implementation: the next non-space byte exists and is neither ']' nor '}')
	intrinsics["(*encoding/json.Decoder).More"] = func(fr *frame, args []value) value {
		r := fr.i.run
		toks, ok := r.ghostFlags["json.tokens"]
		if !ok {
			return notHandled{}
		}
		list := toks.([]value)
		pos := r.ghostFlags["json.pos"].(int)
		if pos >= len(list) {
			return false
		}
		if t, isI := list[pos].(iface); isI && t.t != nil {
			if n, named := t.t.(*types.Named); named && n.Obj().Name() == "Delim" {
				if d, isInt := t.v.(int32); isInt && (d == ']' || d == '}') {
					return false
				}
			}
			if n, named := t.t.(*types.Named); named && n.Obj().Name() == "StraySyntax" {
				if sv, isS := t.v.(string); isS && (sv == "]" || sv == "}") {
					return false
				}
			}
		}
		return true
	}
	intrinsics["(*github.com/invopop/gobl/bill.Invoice).Calculate"] = func(fr *frame, args []value) value {
		if f, ok := fr.i.run.ghostFlags["invoice.Calculate"]; ok {
			if b, isB := f.(bool); isB && b {
				return iface{}
			}
			return fr.i.opaqueError("calculation", iface{})
		}
		return notHandled{}
	}
	today := func(fr *frame, args []value) value {
		// cal.Date{civil.Date{Year, Month, Day}}: an arbitrary fixed day (the clock is environment)
		return structure{structure{2031, int(7), 9}}
	}
	intrinsics["github.com/invopop/gobl/cal.Today"] = today
	intrinsics["github.com/invopop/gobl/cal.TodayIn"] = today

	// ---- digest flow: serialisation, canonicalisation and hashing as injective uninterpreted functions
	uf := func(fr *frame, name string, arg *smt.Term) *smt.Term {
		r := fr.i.run
		c := r.ctx
		res := c.UF(name, smt.SInt, arg)
		if r.ufApps == nil {
			r.ufApps = map[string][][2]*smt.Term{}
		}
		for _, p := range r.ufApps[name] {
			if p[1] == res {
				return res
			}
			// injectivity instance (assumption: distinct contents have distinct serialisations / canonical forms / digests)
			r.assumeInternal(c.Implies(c.Eq(p[1], res), c.Eq(p[0], arg)), "injectivity of "+name)
		}
		r.ufApps[name] = append(r.ufApps[name], [2]*smt.Term{arg, res})
		return res
	}
	intrinsics[v+"BindContent"] = func(fr *frame, args []value) value {
		r := fr.i.run
		if r.ghostContent == nil {
			r.ghostContent = map[*value]*smt.Term{}
		}
		obj := args[0].(iface).v.(*value)
		r.ghostContent[obj] = fr.i.term(args[1])
		return nil
	}
	intrinsics[v+"DigestOf"] = func(fr *frame, args []value) value {
		t := fr.i.term(args[0])
		return opq{uf(fr, "SHA256", uf(fr, "C14N", uf(fr, "MARSHAL", t))), 64}
	}
	intrinsics["encoding/json.Marshal"] = func(fr *frame, args []value) value {
		r := fr.i.run
		if r.ghostContent == nil {
			return notHandled{}
		}
		a, ok := args[0].(iface)
		if !ok {
			return notHandled{}
		}
		p, ok := a.v.(*value)
		if !ok {
			unsup("json.Marshal of a value that is not a bound document")
		}
		t, bound := r.ghostContent[p]
		if !bound {
			// an object the harness did not bind (a clone, a corrected copy): content unknown, a fresh token
			r.freshContent++
			t = r.ctx.Var(fmt.Sprintf("content!%d", r.freshContent), smt.SInt, nil, nil)
			r.ghostContent[p] = t
		}
		return tuple{opq{uf(fr, "MARSHAL", t), -1}, iface{}}
	}
	intrinsics["github.com/invopop/gobl/c14n.CanonicalJSON"] = func(fr *frame, args []value) value {
		if fr.i.run.ghostContent == nil {
			return notHandled{}
		}
		// the argument is a *bytes.Reader over the serialised bytes
		rd, ok := args[0].(iface)
		if !ok {
			unsup("CanonicalJSON of a non-reader")
		}
		st, ok := (*rd.v.(*value)).(structure)
		if !ok || len(st) == 0 {
			unsup("CanonicalJSON: unexpected reader shape")
		}
		o, ok := st[0].(opq)
		if !ok {
			unsup("CanonicalJSON of bytes that are not an abstract serialisation")
		}
		return tuple{opq{uf(fr, "C14N", o.t), -1}, iface{}}
	}
	intrinsics["github.com/invopop/gobl/dsig.NewSHA256Digest"] = func(fr *frame, args []value) value {
		o, ok := args[0].(opq)
		if !ok {
			return notHandled{}
		}
		pkg := fr.i.prog.ImportedPackage("github.com/invopop/gobl/dsig")
		st := zero(pkg.Type("Digest").Type()).(structure)
		st[0] = "sha256"
		st[1] = opq{uf(fr, "SHA256", o.t), 64}
		var cell value = st
		return &cell
	}
	// Digest.String() = algorithm + ";" + value: for an abstract digest value, an injective function of it (per algorithm)
	intrinsics["(*github.com/invopop/gobl/dsig.Digest).String"] = func(fr *frame, args []value) value {
		p, _ := args[0].(*value)
		if p == nil {
			return notHandled{}
		}
		st, ok := (*p).(structure)
		if !ok {
			return notHandled{}
		}
		o, isO := st[1].(opq)
		alg, isS := st[0].(string)
		if !isO || !isS {
			return notHandled{}
		}
		return opq{uf(fr, "DIGESTSTR_"+alg, o.t), -1}
	}
	flagErr := func(fr *frame, name string) (value, bool) {
		f, ok := fr.i.run.ghostFlags[name]
		if !ok {
			return nil, false
		}
		if b, isB := f.(bool); isB && b {
			return iface{}, true
		}
		return fr.i.opaqueError(name+" failed", iface{}), true
	}
	// Clone: the JSON round trip of schema.Object.Clone is replaced by an ideal deep copy when the harness asks
	// for it (vrt.SetStub("object.Clone", true)); the fidelity of the round trip itself is outside such a claim
	intrinsics["(*github.com/invopop/gobl/schema.Object).Clone"] = func(fr *frame, args []value) value {
		if _, ok := fr.i.run.ghostFlags["object.Clone"]; !ok {
			return notHandled{}
		}
		p, _ := args[0].(*value)
		if p == nil {
			panic(runtimeError("invalid memory address or nil pointer dereference"))
		}
		return tuple{deepCopyValue(p, map[*value]*value{}), iface{}}
	}
	// uuid.V7: the clock and the random source are environment: a fresh, well-formed version 7 identifier per call
	intrinsics["github.com/invopop/gobl/uuid.V7"] = func(fr *frame, args []value) value {
		r := fr.i.run
		r.uuidCounter++
		return fmt.Sprintf("0190c2a6-7c2a-7000-8000-00000fe%05d", r.uuidCounter)
	}
	// a document object bound to an abstract content token has content
	intrinsics["(*github.com/invopop/gobl/schema.Object).IsEmpty"] = func(fr *frame, args []value) value {
		p, _ := args[0].(*value)
		if p != nil && fr.i.run.ghostContent != nil {
			if _, ok := fr.i.run.ghostContent[p]; ok {
				return false
			}
		}
		return notHandled{}
	}
	// document validation outcome fixed by the harness: "document.valid" (always consulted) and
	// "document.valid.signed" (additionally required when the context says the envelope is signed)
	intrinsics["(*github.com/invopop/gobl/schema.Object).ValidateWithContext"] = func(fr *frame, args []value) value {
		r := fr.i.run
		f, ok := r.ghostFlags["document.valid"]
		if !ok {
			return notHandled{}
		}
		if b, isB := f.(bool); isB && !b {
			return fr.i.opaqueError("document invalid", iface{})
		}
		if f2, ok := r.ghostFlags["document.valid.signed"]; ok {
			if b, isB := f2.(bool); isB && !b {
				ip := fr.i.prog.ImportedPackage("github.com/invopop/gobl/internal")
				if ip == nil {
					unsup("internal package not loaded")
				}
				signed := call(fr.i, fr, token.NoPos, ip.Func("IsSigned"), []value{args[1]})
				if sb, isB := signed.(bool); isB && sb {
					return fr.i.opaqueError("document invalid when signed", iface{})
				}
			}
		}
		return iface{}
	}
	intrinsics["(*github.com/invopop/gobl/schema.Object).Calculate"] = func(fr *frame, args []value) value {
		if v, ok := flagErr(fr, "document.Calculate"); ok {
			return v
		}
		return notHandled{}
	}

	// context.WithValue without the reflectlite comparability check
	intrinsics["context.WithValue"] = func(fr *frame, args []value) value {
		pkg := fr.i.prog.ImportedPackage("context")
		if pkg == nil || pkg.Type("valueCtx") == nil {
			unsup("context.WithValue")
		}
		vt := pkg.Type("valueCtx").Type()
		var cell value = structure{args[0], args[1], args[2]}
		return iface{t: types.NewPointer(vt), v: &cell}
	}

	// errors / fmt: opaque error objects
	intrinsics["fmt.Errorf"] = func(fr *frame, args []value) value {
		var wrapped value = iface{}
		for _, a := range args[1].([]value) {
			if ia, ok := a.(iface); ok && ia.t != nil && types.Implements(ia.t, universeError) {
				wrapped = ia
				break
			}
		}
		msg := "errorf"
		if s, ok := args[0].(string); ok {
			msg = s
		}
		return fr.i.opaqueError(msg, wrapped)
	}
	intrinsics["(*strings.Builder).copyCheck"] = func(fr *frame, args []value) value { return nil }
	intrinsics["(*strings.Builder).String"] = func(fr *frame, args []value) value {
		b := (*args[0].(*value)).(structure)
		// struct { addr *Builder; buf []byte }
		return normStr(b[1].([]value))
	}
	intrinsics["(*strings.Builder).grow"] = func(fr *frame, args []value) value {
		p := args[0].(*value)
		b := (*p).(structure)
		old := b[1].([]value)
		n := args[1].(int)
		nb := make([]value, len(old), 2*cap(old)+n)
		copy(nb, old)
		fr.i.logStore(&b[1])
		b[1] = nb
		return nil
	}
	intrinsics["internal/bytealg.MakeNoZero"] = func(fr *frame, args []value) value {
		n := args[0].(int)
		out := make([]value, n)
		for k := range out {
			out[k] = uint8(0)
		}
		return out
	}
	intrinsics["unsafe.String"] = nil
	delete(intrinsics, "unsafe.String")
	intrinsics["internal/stringslite.Clone"] = func(fr *frame, args []value) value { return args[0] }
	intrinsics["strings.Clone"] = func(fr *frame, args []value) value { return args[0] }
	intrinsics["internal/race.Acquire"] = func(fr *frame, args []value) value { return nil }
	intrinsics["internal/race.Release"] = func(fr *frame, args []value) value { return nil }
	intrinsics["internal/race.ReleaseMerge"] = func(fr *frame, args []value) value { return nil }
	intrinsics["internal/race.Enable"] = func(fr *frame, args []value) value { return nil }
	intrinsics["internal/race.Disable"] = func(fr *frame, args []value) value { return nil }
	intrinsics["internal/race.ReadRange"] = func(fr *frame, args []value) value { return nil }
	intrinsics["internal/race.WriteRange"] = func(fr *frame, args []value) value { return nil }
}

func realToIntTerm(c *smt.Ctx, t *smt.Term) *smt.Term {
	if t.Op == smt.OToReal {
		return t.Args[0]
	}
	return c.Int(t.R.Num())
}

func (i *interpreter) inputInt(name string, k types.BasicKind, lo, hi *big.Int) value {
	t := i.run.input(name, smt.SInt, lo, hi)
	return sym{t, k}
}

func (i *interpreter) vrtType(name string) types.Type {
	pkg := i.prog.ImportedPackage(VrtPath)
	if pkg == nil {
		unsup("vrt package not loaded")
	}
	m := pkg.Type(name)
	if m == nil {
		unsup("vrt type %s missing", name)
	}
	return m.Type()
}

// deepCopyValue copies a value graph (pointers, slices, structs, arrays, interfaces; maps unsupported).
func deepCopyValue(v value, seen map[*value]*value) value {
	switch x := v.(type) {
	case *value:
		if x == nil {
			return x
		}
		if c, ok := seen[x]; ok {
			return c
		}
		c := new(value)
		seen[x] = c
		*c = deepCopyValue(*x, seen)
		return c
	case []value:
		if x == nil {
			return x
		}
		out := make([]value, len(x))
		for k := range x {
			out[k] = deepCopyValue(x[k], seen)
		}
		return out
	case structure:
		out := make(structure, len(x))
		for k := range x {
			out[k] = deepCopyValue(x[k], seen)
		}
		return out
	case array:
		out := make(array, len(x))
		for k := range x {
			out[k] = deepCopyValue(x[k], seen)
		}
		return out
	case iface:
		return iface{t: x.t, v: deepCopyValue(x.v, seen)}
	case *omap:
		if x == nil {
			return x
		}
		out := makeMap(x.kt, 0).(*omap)
		for _, e := range x.entries {
			if e.live {
				out.entries = append(out.entries, oentry{key: e.key, val: deepCopyValue(e.val, seen), live: true})
				if h, ok := keyHash(out.kt, e.key); ok {
					out.index[h] = append(out.index[h], len(out.entries)-1)
				}
				out.n++
			}
		}
		return out
	}
	return v
}

func (i *interpreter) opaqueError(msg string, wrapped value) value {
	t := i.vrtType("OpaqueError")
	var cell value = structure{msg, wrapped}
	return iface{t: types.NewPointer(t), v: &cell}
}

// SetupModels resolves model and substitution functions after loading.
func (e *Engine) SetupModels(models map[string]string) error {
	e.modelFns = map[string]*ssa.Function{}
	e.substFns = map[*ssa.Function]*ssa.Function{}
	vp := e.Prog.ImportedPackage(VrtPath)
	if vp == nil {
		return fmt.Errorf("vrt package %s not loaded", VrtPath)
	}
	for real, model := range models {
		f := vp.Func(model)
		if f == nil {
			return fmt.Errorf("model function vrt.%s missing", model)
		}
		e.modelFns[real] = f
	}
	return nil
}

// Substitute makes calls of `from` execute `to` instead (assume–guarantee layering).
func (e *Engine) AddSubstitution(from, to *ssa.Function) {
	e.substFns[from] = to
}

func (e *Engine) ClearSubstitutions() { e.substFns = map[*ssa.Function]*ssa.Function{} }

// FindFunc resolves "pkgpath.Func" or "(pkgpath.T).M" / "(*pkgpath.T).M".
func (e *Engine) FindFunc(name string) *ssa.Function {
	if strings.HasPrefix(name, "(") {
		// method
		end := strings.Index(name, ").")
		recv, meth := name[1:end], name[end+2:]
		ptr := strings.HasPrefix(recv, "*")
		recv = strings.TrimPrefix(recv, "*")
		dot := strings.LastIndex(recv, ".")
		pkg := e.Prog.ImportedPackage(recv[:dot])
		if pkg == nil {
			return nil
		}
		tm := pkg.Type(recv[dot+1:])
		if tm == nil {
			return nil
		}
		var T types.Type = tm.Type()
		if ptr {
			T = types.NewPointer(T)
		}
		sel := e.Prog.MethodSets.MethodSet(T).Lookup(pkg.Pkg, meth)
		if sel == nil {
			return nil
		}
		return e.Prog.MethodValue(sel)
	}
	dot := strings.LastIndex(name, ".")
	pkg := e.Prog.ImportedPackage(name[:dot])
	if pkg == nil {
		return nil
	}
	return pkg.Func(name[dot+1:])
}

type NativeCtx struct{}

func nativeFallbackOK(name string) bool { return false }

func (i *interpreter) nativeCall(fn *ssa.Function, args []value) (value, bool) { return nil, false }

func schemaPattern(rel string) string {
	data, err := os.ReadFile(repoRoot()+"/data/schemas/" + rel)
	if err != nil {
		return "<unreadable " + rel + ">"
	}
	var doc interface{}
	if json.Unmarshal(data, &doc) != nil {
		return "<bad json>"
	}
	return findPattern(doc)
}

func schemaValue(rel, key string) string {
	data, err := os.ReadFile(repoRoot()+"/data/schemas/" + rel)
	if err != nil {
		return ""
	}
	var doc interface{}
	if json.Unmarshal(data, &doc) != nil {
		return ""
	}
	var find func(v interface{}) (string, bool)
	find = func(v interface{}) (string, bool) {
		switch x := v.(type) {
		case map[string]interface{}:
			if p, ok := x[key]; ok {
				switch pv := p.(type) {
				case string:
					return pv, true
				case float64:
					return strconv.FormatInt(int64(pv), 10), true
				}
			}
			keys := make([]string, 0, len(x))
			for k := range x {
				keys = append(keys, k)
			}
			sort.Strings(keys)
			for _, k := range keys {
				if p, ok := find(x[k]); ok {
					return p, true
				}
			}
		case []interface{}:
			for _, e := range x {
				if p, ok := find(e); ok {
					return p, true
				}
			}
		}
		return "", false
	}
	s, _ := find(doc)
	return s
}

func findPattern(v interface{}) string {
	switch x := v.(type) {
	case map[string]interface{}:
		if p, ok := x["pattern"].(string); ok {
			return p
		}
		keys := make([]string, 0, len(x))
		for k := range x {
			keys = append(keys, k)
		}
		sort.Strings(keys)
		for _, k := range keys {
			if p := findPattern(x[k]); p != "" {
				return p
			}
		}
	case []interface{}:
		for _, e := range x {
			if p := findPattern(e); p != "" {
				return p
			}
		}
	}
	return ""
}

func published(kind, name string) []string {
	var out []string
	readJSON := func(path string, v interface{}) bool {
		data, err := os.ReadFile(path)
		return err == nil && json.Unmarshal(data, v) == nil
	}
	switch kind {
	case "currencies":
		files, _ := filepath.Glob(repoRoot()+"/data/currency/*.json")
		sort.Strings(files)
		for _, f := range files {
			var list []struct {
				Code string `json:"iso_code"`
			}
			if readJSON(f, &list) {
				for _, c := range list {
					out = append(out, c.Code)
				}
			}
		}
	case "regimes", "addons":
		files, _ := filepath.Glob(repoRoot()+"/data/" + kind + "/*.json")
		sort.Strings(files)
		for _, f := range files {
			var doc struct {
				Country string `json:"country"`
				Key     string `json:"key"`
			}
			if readJSON(f, &doc) {
				if kind == "regimes" {
					out = append(out, doc.Country)
				} else {
					out = append(out, doc.Key)
				}
			}
		}
	case "tags":
		// name: "regimes/es" or "addons/it-sdi-v1"; tags offered for invoices
		var doc struct {
			Tags []struct {
				Schema string `json:"schema"`
				List   []struct {
					Key string `json:"key"`
				} `json:"list"`
			} `json:"tags"`
		}
		if readJSON(repoRoot()+"/data/"+name+".json", &doc) {
			for _, t := range doc.Tags {
				if t.Schema == "bill/invoice" {
					for _, k := range t.List {
						out = append(out, k.Key)
					}
				}
			}
		}
	}
	return out
}

func publishedExtension(key string) (values []string, pattern string, found bool) {
	for _, dir := range []string{"addons", "regimes", "catalogues"} {
		files, _ := filepath.Glob(repoRoot()+"/data/" + dir + "/*.json")
		sort.Strings(files)
		for _, f := range files {
			data, err := os.ReadFile(f)
			if err != nil {
				continue
			}
			var doc struct {
				Extensions []struct {
					Key     string `json:"key"`
					Pattern string `json:"pattern"`
					Values  []struct {
						Code string `json:"code"`
					} `json:"values"`
				} `json:"extensions"`
			}
			if json.Unmarshal(data, &doc) != nil {
				continue
			}
			for _, e := range doc.Extensions {
				if e.Key == key {
					for _, v := range e.Values {
						values = append(values, v.Code)
					}
					return values, e.Pattern, true
				}
			}
		}
	}
	return nil, "", false
}

// repoRoot: /repo, or the checkout named by VERIF_REPO.
func repoRoot() string {
	if d := os.Getenv("VERIF_REPO"); d != "" {
		return d
	}
	return "/repo"
}
