package interp

import (
	"sync/atomic"
	"fmt"
	"go/token"
	"go/types"
	"os"
	"runtime"
	"runtime/debug"
	"strings"
	"sync"
	"time"

	"golang.org/x/tools/go/ssa"

	"gsx/smt"
)

func mustDeref(t types.Type) types.Type {
	if ptr, ok := t.Underlying().(*types.Pointer); ok {
		return ptr.Elem()
	}
	panic(fmt.Sprintf("%v is not a pointer", t))
}

// Engine is shared (read-only) by all workers.
type Engine struct {
	Prog             *ssa.Program
	Sizes            types.Sizes
	KnownOpen        map[string]bool
	MaxPicks         int
	Unwind           int
	MaxInstr         int64
	SolverArgv       []string
	SolverName       string
	SolverTimeoutMs  int
	BranchTimeoutMs  int
	SecondSolverArgv []string
	SelfTest         bool            // sample clean paths for native replay
	okPaths          int64
	InitPkgs         map[string]bool // packages whose init runs normally
	LenientPkgs      map[string]bool // packages whose var initialisers run leniently
	VrtPath          string          // import path of the overlaid runtime package
	LogDir           string
	Trace            bool
	Thorough         bool
	deadline         time.Time
	OpaqueStrings    map[string]string // fn name -> placeholder returned when called with symbolic arguments
	OpaqueAlways     map[string]string // fn name -> placeholder returned always (error message rendering)
	knownSeen        map[string]int
	SessionPaths     int               // recycle solver/context after this many paths
	Substitute       map[string]string // fn name -> replacement fn name (spec substitution, layering)
	NativeImport     func(i *NativeCtx, name string, args []interface{}) (interface{}, bool)
	substFns         map[*ssa.Function]*ssa.Function
	modelFns         map[string]*ssa.Function
	mu               sync.Mutex
}

// knownWitnessed adds n to, and returns, the number of counterexamples recorded for a known-finding class.
func (e *Engine) knownWitnessed(id string, n int) int {
	e.mu.Lock()
	defer e.mu.Unlock()
	if e.knownSeen == nil {
		e.knownSeen = map[string]int{}
	}
	e.knownSeen[id] += n
	return e.knownSeen[id]
}

func isEngineAbort(p interface{}) bool {
	switch p.(type) {
	case pathAbort, unsupported:
		return true
	}
	return false
}

// Worker owns one interpreter heap and one solver session.
type Worker struct {
	eng  *Engine
	i    *interpreter
	sess *Session
	id   int
}

func (e *Engine) NewWorker(id int) (*Worker, error) {
	i := &interpreter{
		prog:       e.Prog,
		globals:    make(map[*ssa.Global]*value),
		sizes:      e.Sizes,
		goroutines: 1,
		eng:        e,
	}
	runtimePkg := e.Prog.ImportedPackage("runtime")
	if runtimePkg == nil {
		return nil, fmt.Errorf("ssa.Program doesn't include runtime package")
	}
	i.runtimeErrorString = runtimePkg.Type("errorString").Object().Type()
	initReflect(i)
	for _, pkg := range e.Prog.AllPackages() {
		for _, m := range pkg.Members {
			if v, ok := m.(*ssa.Global); ok {
				cell := zero(mustDeref(v.Type()))
				i.globals[v] = &cell
			}
		}
	}
	w := &Worker{eng: e, i: i, id: id}
	if err := w.runInits(); err != nil {
		return nil, err
	}
	return w, nil
}

func (w *Worker) runInits() (err error) {
	// Run in dependency order as the synthesised init functions do, but only for
	// packages on the lists; calls to other packages' init are skipped in callSSA.
	done := map[*ssa.Package]bool{}
	var visit func(p *ssa.Package)
	visit = func(p *ssa.Package) {
		if done[p] {
			return
		}
		done[p] = true
		for _, imp := range p.Pkg.Imports() {
			if ip := w.eng.Prog.Package(imp); ip != nil {
				visit(ip)
			}
		}
		path := p.Pkg.Path()
		if !w.eng.InitPkgs[path] && !w.eng.LenientPkgs[path] {
			return
		}
		fn := p.Func("init")
		if fn == nil {
			return
		}
		w.i.lenient = w.eng.LenientPkgs[path]
		func() {
			defer func() {
				if p := recover(); p != nil {
					if w.eng.Trace {
						fmt.Fprintf(os.Stderr, "init %s: %v\n", path, p)
					}
					if !w.i.lenient {
						err = fmt.Errorf("init of %s failed: %v", path, p)
					}
				}
			}()
			call(w.i, nil, token.NoPos, fn, nil)
		}()
		w.i.lenient = false
	}
	for _, p := range w.eng.Prog.AllPackages() {
		visit(p)
	}
	return err
}

func (w *Worker) newSession() error {
	if w.sess != nil && w.sess.solver != nil {
		w.sess.solver.Close()
	}
	ctx := smt.NewCtx()
	logPath := ""
	if w.eng.LogDir != "" {
		logPath = fmt.Sprintf("%s/solver-%d.smt2", w.eng.LogDir, w.id)
	}
	s, err := smt.NewSolver(ctx, w.eng.SolverName, w.eng.SolverArgv, w.eng.SolverTimeoutMs, logPath)
	if err != nil {
		return err
	}
	w.sess = &Session{ctx: ctx, solver: s, memo: map[string]*smt.Term{}, memo2: map[string][2]*smt.Term{}, memoBits: map[string][]*smt.Term{}}
	return nil
}

func (w *Worker) Close() {
	if w.sess != nil && w.sess.solver != nil {
		w.sess.solver.Close()
	}
}

// SolverStats returns cumulative queries and time of the current session (reset on recycle).
func (w *Worker) SolverErrors() []string {
	if w.sess == nil {
		return nil
	}
	return w.sess.solver.Errors
}

// RunPath executes the harness once under the decision vector.
func (w *Worker) RunPath(fn *ssa.Function, decisions []Decision) (res *PathResult) {
	tPath := time.Now()
	defer func() {
		if res != nil {
			res.WallS = time.Since(tPath).Seconds()
		}
	}()
	if w.sess == nil || w.sess.paths >= w.eng.SessionPaths || w.sess.solver.Dead() {
		if err := w.newSession(); err != nil {
			return &PathResult{Outcome: "unsupported", Detail: "solver start: " + err.Error()}
		}
	}
	w.sess.paths++
	res = &PathResult{AssertsOK: map[string]int{}, AssertsSeen: map[string]int{}, Observes: map[string]string{}}
	r := &run{
		Session: w.sess, eng: w.eng, harness: fn.Name(), decisions: decisions, res: res,
		frozen: map[*value]string{}, inputSet: map[string]bool{},
		maxInstr: w.eng.MaxInstr, unwind: w.eng.Unwind,
	}
	w.i.run = r
	q0, t0 := w.sess.solver.Queries, w.sess.solver.Time
	w.sess.solver.Push()
	defer func() {
		p := recover()
		switch p := p.(type) {
		case nil:
			res.Outcome = "ok"
			if r.lazyAssumes > 0 && !w.sess.solver.Dead() {
				if r.check() == smt.Unsat {
					res.Outcome, res.Detail = "infeasible", "path condition infeasible (assumption)"
					res.AssertsOK, res.AssertsSeen = map[string]int{}, map[string]int{}
					res.Trivial, res.Findings = 0, nil
				}
			}
			// translator validation: a sample of clean paths is replayed natively (models of their path conditions)
			if res.Outcome == "ok" && len(res.Findings) == 0 && w.eng.SelfTest && !w.sess.solver.Dead() {
				n := atomic.AddInt64(&w.eng.okPaths, 1)
				if n&(n-1) == 0 { // 1st, 2nd, 4th, 8th ... clean path
					if m, sres := r.model(); sres == smt.Sat {
						res.OkModel = m
					}
				}
			}
		case pathAbort:
			res.Outcome, res.Detail = p.outcome, p.detail
		case unsupported:
			res.Outcome, res.Detail = "unsupported", p.msg
			if w.eng.Trace {
				fmt.Fprintf(os.Stderr, "unsupported: %s\n%s\n", p.msg, debug.Stack())
			}
		default:
			msg := panicMessage(p)
			if engineBug(p, msg) {
				res.Outcome, res.Detail = "unsupported", "engine: "+msg
				if w.eng.Trace {
					fmt.Fprintf(os.Stderr, "engine panic: %s\n%s\n", msg, debug.Stack())
				}
			} else {
				if r.lastInstr != nil {
					msg += " @" + r.eng.Prog.Fset.Position(r.lastInstr.Pos()).String()
					if r.lastInstr.Parent() != nil {
						msg += " in " + r.lastInstr.Parent().String()
					}
				}
				res.Outcome, res.Detail = "panic", msg
				if m, sres := r.model(); sres == smt.Sat {
					// a panic on a path that the harness has declared, unconditionally, to lie in an open
					// known-finding class (vrt.Known(id, true) before the call) is reported under that class; the
					// report still requires the panic to reproduce natively and to come from the recorded function
					kid := ""
					for _, k := range r.known {
						if r.eng.KnownOpen[k.id] && k.cond.IsConst() && k.cond.B {
							kid = k.id
						}
					}
					if kid != "" {
						r.finding("known-panic", "panic", msg, m, kid)
					} else {
						r.finding("panic", "panic", msg, m, "")
					}
				} else {
					res.Unknown = append(res.Unknown, "panic-model")
				}
			}
		}
		// undo heap effects
		for k := len(r.undo) - 1; k >= 0; k-- {
			u := r.undo[k]
			if u.m != nil {
				u.m.rawRestore(w.i, u.key, u.old, u.had)
			} else {
				*u.addr = u.old
			}
		}
		for _, m := range r.frozenMaps {
			m.frozen = ""
		}
		if !w.sess.solver.Dead() {
			w.sess.solver.PopTo(0)
		}
		res.Decisions = r.trace
		res.NewWork = r.newWork
		res.Instrs = r.stats.instrs
		res.Queries = w.sess.solver.Queries - q0
		res.SolverS = (w.sess.solver.Time - t0).Seconds()
		w.i.run = nil
	}()
	call(w.i, nil, token.NoPos, fn, nil)
	return res
}

func panicMessage(p interface{}) string {
	switch p := p.(type) {
	case targetPanic:
		return "panic: " + toString(p.v)
	case runtime.Error:
		return p.Error()
	case error:
		return p.Error()
	case string:
		return p
	}
	return fmt.Sprintf("%v", p)
}

// engineBug classifies Go-level panics raised by the interpreter itself (as
// opposed to panics of the target program that the interpreter mirrors).
func engineBug(p interface{}, msg string) bool {
	if _, ok := p.(targetPanic); ok {
		return false
	}
	if _, ok := p.(runtimeError); ok {
		return false
	}
	if strings.Contains(msg, "interface conversion: interface {} is") ||
		strings.Contains(msg, "interp.") ||
		strings.HasPrefix(msg, "unexpected ") || strings.HasPrefix(msg, "no code for function") ||
		strings.HasPrefix(msg, "get: no value") || strings.HasPrefix(msg, "invalid binary op") ||
		strings.HasPrefix(msg, "invalid unary op") || strings.HasPrefix(msg, "unsupported conversion") ||
		strings.HasPrefix(msg, "cannot ") || strings.HasPrefix(msg, "zero") || strings.HasPrefix(msg, "smt.") ||
		strings.HasPrefix(msg, "unknown built-in") || strings.HasPrefix(msg, "illegal") || strings.HasPrefix(msg, "len: ") ||
		strings.Contains(msg, "poison") {
		return true
	}
	return false
}

// callSSA interprets a call to function fn.
func callSSA(i *interpreter, caller *frame, callpos token.Pos, fn *ssa.Function, args []value, env []value) value {
	if i.eng.Trace && i.run != nil {
		fmt.Fprintf(os.Stderr, "Entering %s\n", fn)
	}
	fr := &frame{i: i, caller: caller, fn: fn}
	if fn.Parent() == nil {
		name := fn.String()
		if i.run != nil || i.lenient {
			if sub := i.eng.substFns[fn]; sub != nil {
				return callSSA(i, caller, callpos, sub, args, nil)
			}
			if ph, ok := i.eng.OpaqueAlways[name]; ok {
				return ph // rendering of an error message: placeholder text (messages are not part of any claim)
			}
			if ph, ok := i.eng.OpaqueStrings[name]; ok && anySym(args) {
				return ph // formatting of a symbolic value for a message: placeholder text
			}
			if in := intrinsics[name]; in != nil {
				if v := in(fr, args); v != (notHandled{}) {
					return v
				}
			}
			if m := i.eng.modelFns[name]; m != nil && m != fn {
				if name == "fmt.Sprintf" {
					args = sprintfIntegerArgs(args)
				}
				return callSSA(i, caller, callpos, m, args, nil)
			}
		}
		if ext := externals[name]; ext != nil && !anySym(args) {
			return ext(fr, args)
		}
		// package initialisers: only for listed packages
		if fn.Name() == "init" && fn.Pkg != nil && fn.Signature.Recv() == nil && fn.Synthetic != "" {
			path := fn.Pkg.Pkg.Path()
			if !i.eng.InitPkgs[path] && !i.eng.LenientPkgs[path] {
				return nil
			}
			if caller != nil {
				// nested call from another package's init: already run in dependency order
				return nil
			}
		}
		if i.lenient && strings.HasPrefix(fn.Name(), "init#") {
			return nil // user init functions are not run leniently
		}
		if fn.Blocks == nil {
			if i.run != nil && nativeFallbackOK(name) && !anySym(args) {
				if v, ok := i.nativeCall(fn, args); ok {
					return v
				}
			}
			unsup("no code for function: %s", name)
		}
	}
	if fn.TypeParams().Len() > 0 && len(fn.TypeArgs()) == 0 {
		unsup("uninstantiated generic function %s", fn)
	}
	fr.env = make(map[ssa.Value]value)
	fr.block = fn.Blocks[0]
	fr.locals = make([]value, len(fn.Locals))
	for k, l := range fn.Locals {
		fr.locals[k] = zero(mustDeref(l.Type()))
		fr.env[l] = &fr.locals[k]
	}
	for k, p := range fn.Params {
		fr.env[p] = args[k]
	}
	for k, fv := range fn.FreeVars {
		fr.env[fv] = env[k]
	}
	for fr.block != nil {
		runFrame(fr)
	}
	for k := range fn.Locals {
		fr.locals[k] = bad{}
	}
	return fr.result
}

func anySym(args []value) bool {
	for _, a := range args {
		if hasSymDeep(a, 0) {
			return true
		}
	}
	return false
}

func hasSymDeep(v value, depth int) bool {
	if depth > 3 {
		return false
	}
	switch v := v.(type) {
	case sym, symstr, symptr:
		return true
	case []value:
		for _, e := range v {
			if hasSymDeep(e, depth+1) {
				return true
			}
		}
	case structure:
		for _, e := range v {
			if hasSymDeep(e, depth+1) {
				return true
			}
		}
	case array:
		for _, e := range v {
			if hasSymDeep(e, depth+1) {
				return true
			}
		}
	case iface:
		return hasSymDeep(v.v, depth+1)
	case *value:
		if v != nil {
			return hasSymDeep(*v, depth+1)
		}
	}
	return false
}

type poison struct{ why string }

// notHandled is returned by an intrinsic that declines (the real body runs instead).
type notHandled struct{}

func runFrame(fr *frame) {
	defer func() {
		if fr.block == nil {
			return // normal return
		}
		p := recover()
		if isEngineAbort(p) {
			panic(p)
		}
		fr.panicking = true
		fr.panic = p
		fr.runDefers()
		fr.block = fr.fn.Recover
	}()

	i := fr.i
	for {
		if i.run != nil {
			if fr.visits == nil {
				fr.visits = map[*ssa.BasicBlock]int{}
			}
			fr.visits[fr.block]++
			if fr.visits[fr.block] > i.run.unwind {
				i.run.abort("unwind", "unwind bound %d exceeded in %s block %d", i.run.unwind, fr.fn, fr.block.Index)
			}
		}
		nonPhis := executePhis(fr)
		for _, instr := range nonPhis {
			if i.run != nil {
				i.run.stats.instrs++
				if i.run.stats.instrs > i.run.maxInstr {
					i.run.abort("steps", "instruction budget %d exceeded", i.run.maxInstr)
				}
				if i.eng.Trace {
					if v, ok := instr.(ssa.Value); ok {
						fmt.Fprintln(os.Stderr, "\t", v.Name(), "=", instr)
					} else {
						fmt.Fprintln(os.Stderr, "\t", instr)
					}
				}
			}
			if i.run != nil {
				i.run.lastInstr = instr
			}
			var k continuation
			if i.lenient {
				k = visitLenient(fr, instr)
			} else {
				k = visitInstr(fr, instr)
			}
			if k == kReturn {
				return
			}
		}
	}
}

// visitLenient executes an instruction of a package initialiser; an instruction
// that cannot be interpreted yields a poison value instead of failing.
func visitLenient(fr *frame, instr ssa.Instruction) (k continuation) {
	defer func() {
		if p := recover(); p != nil {
			if _, isJump := instr.(*ssa.If); isJump {
				panic(p)
			}
			if v, ok := instr.(ssa.Value); ok {
				fr.env[v] = poison{fmt.Sprintf("%v", p)}
			}
			k = kNext
		}
	}()
	return visitInstr(fr, instr)
}

// ---------------------------------------------------------------------------
// Exploration driver

type ExploreOpts struct {
	Workers  int
	MaxPaths int
	Deadline time.Time
	OnPath   func(*PathResult)
}

type Summary struct {
	Harness       string
	Paths         int
	Outcomes      map[string]int
	AssertsOK     map[string]int
	AssertsSeen   map[string]int
	Findings      []Finding
	Probes        []ProbeSpec         // input descriptions of paths with an obligation left unknown
	OkModels      []map[string]string // models of a sample of clean paths (translator validation)
	FindingCounts map[string]int // per obligation / panic site: how many paths reached it failing
	Unknown       []string
	Instrs        int64
	Queries       int
	Unsupported   map[string]int
	Incomplete    []string // reasons coverage is incomplete
	Samples       []string
	InternalAsm   map[string]int
	WallS         float64
	PanicMsgs     map[string]int
	LastObserves  map[string]string
	SolverS       float64
	LabelTime     map[string]float64
	SlowestS      float64
	Slowest       string
	Trivial       int
	SecondOpinion int
}

// Explore runs all paths of a harness.
func (e *Engine) Explore(fn *ssa.Function, workers []*Worker, opts ExploreOpts) *Summary {
	e.deadline = opts.Deadline
	for _, w := range workers {
		// input names are scoped to a harness: start from a fresh term context and solver
		if w.sess != nil {
			w.sess.paths = 1 << 30
		}
	}
	atomic.StoreInt64(&e.okPaths, 0)
	sum := &Summary{Harness: fn.Name(), Outcomes: map[string]int{}, AssertsOK: map[string]int{}, AssertsSeen: map[string]int{},
		Unsupported: map[string]int{}, InternalAsm: map[string]int{}, PanicMsgs: map[string]int{}}
	t0 := time.Now()
	var mu sync.Mutex
	cond := sync.NewCond(&mu)
	work := [][]Decision{nil}
	active := 0
	stopped := false
	var wg sync.WaitGroup
	for _, w := range workers {
		wg.Add(1)
		go func(w *Worker) {
			defer wg.Done()
			for {
				mu.Lock()
				for len(work) == 0 && active > 0 && !stopped {
					cond.Wait()
				}
				if stopped || (len(work) == 0 && active == 0) {
					mu.Unlock()
					cond.Broadcast()
					return
				}
				d := work[len(work)-1]
				work = work[:len(work)-1]
				active++
				mu.Unlock()

				res := w.RunPath(fn, d)

				mu.Lock()
				active--
				sum.Paths++
				sum.Outcomes[res.Outcome]++
				for k, v := range res.AssertsOK {
					sum.AssertsOK[k] += v
				}
				for k, v := range res.AssertsSeen {
					sum.AssertsSeen[k] += v
				}
				// at most three counterexamples are kept per failing obligation / panic site: exploration goes on,
				// so that one defect reached by many paths does not hide another
				for _, f := range res.Findings {
					key := f.Kind + "|" + f.Label + "|" + f.Detail
					if sum.FindingCounts == nil {
						sum.FindingCounts = map[string]int{}
					}
					sum.FindingCounts[key]++
					if sum.FindingCounts[key] <= 40 {
						sum.Findings = append(sum.Findings, f)
					}
				}
				for _, u := range res.Unknown {
					sum.Unknown = append(sum.Unknown, u)
				}
				for _, a := range res.InternalAsms {
					sum.InternalAsm[a]++
				}
				if len(sum.Probes) < 6 {
					sum.Probes = append(sum.Probes, res.Probes...)
				}
				if res.OkModel != nil {
					sum.OkModels = append(sum.OkModels, res.OkModel)
				}
				sum.Instrs += res.Instrs
				sum.SolverS += res.SolverS
				for k, v := range res.LabelTime {
					if sum.LabelTime == nil {
						sum.LabelTime = map[string]float64{}
					}
					sum.LabelTime[k] += v
				}
				if len(res.Observes) > 0 {
					sum.LastObserves = res.Observes
				}
				sum.Trivial += res.Trivial
				sum.SecondOpinion += res.SecondOpinion
				sum.Queries += res.Queries
				switch res.Outcome {
				case "unsupported":
					sum.Unsupported[res.Detail]++
				case "unwind", "steps", "unknown":
					sum.Incomplete = append(sum.Incomplete, res.Outcome+": "+res.Detail)
				case "panic":
					sum.PanicMsgs[res.Detail]++
				}
				if res.WallS > sum.SlowestS {
					sum.SlowestS = res.WallS
					sum.Slowest = fmt.Sprintf("%.1fs %s", res.WallS, DecisionsString(res.Decisions))
				}
				if len(sum.Samples) < 5 {
					sum.Samples = append(sum.Samples, fmt.Sprintf("%s decisions=%s instrs=%d asserts=%v", res.Outcome, DecisionsString(res.Decisions), res.Instrs, res.AssertsSeen))
				}
				work = append(work, res.NewWork...)
				if opts.OnPath != nil {
					opts.OnPath(res)
				}
				unknownFindings := 0
				for _, f := range sum.Findings {
					if f.Kind != "known" {
						unknownFindings++
					}
				}
				if unknownFindings >= 120 && (len(work) > 0 || active > 0) && !stopped {
					sum.Incomplete = append(sum.Incomplete, fmt.Sprintf("exploration stopped after %d counterexample candidates (%d work items left)", len(sum.Findings), len(work)))
					stopped = true
				}
				if (opts.MaxPaths > 0 && sum.Paths >= opts.MaxPaths) || (!opts.Deadline.IsZero() && time.Now().After(opts.Deadline)) {
					if len(work) > 0 || active > 0 {
						if !stopped {
							sum.Incomplete = append(sum.Incomplete, fmt.Sprintf("path/time budget reached with %d work items left", len(work)))
						}
						stopped = true
					}
				}
				mu.Unlock()
				cond.Broadcast()
			}
		}(w)
	}
	wg.Wait()
	sum.WallS = time.Since(t0).Seconds()
	return sum
}

// sprintfIntegerArgs: the %d verb prints the number of a value of a named integer type even when the type has a
// String method (time.Month): such operands are handed to the Go model of Sprintf as plain integers.
func sprintfIntegerArgs(args []value) []value {
	format, ok := args[0].(string)
	if !ok || len(args) < 2 {
		return args
	}
	ops, ok := args[1].([]value)
	if !ok {
		return args
	}
	out := append([]value(nil), ops...)
	ai := 0
	changed := false
	for k := 0; k < len(format); k++ {
		if format[k] != '%' {
			continue
		}
		k++
		if k < len(format) && format[k] == '%' {
			continue
		}
		for k < len(format) && (format[k] == '0' || format[k] == '-' || format[k] == '+' || format[k] == ' ' || format[k] == '#' || (format[k] >= '1' && format[k] <= '9') || format[k] == '.' || format[k] == '*') {
			if format[k] == '*' {
				ai++
			}
			k++
		}
		if k >= len(format) || ai >= len(out) {
			break
		}
		if format[k] == 'd' {
			if a, isI := out[ai].(iface); isI && a.t != nil {
				if _, named := a.t.(*types.Named); named {
					if b, isB := a.t.Underlying().(*types.Basic); isB && b.Info()&types.IsInteger != 0 {
						out[ai] = iface{t: types.Typ[b.Kind()], v: a.v}
						changed = true
					}
				}
			}
		}
		ai++
	}
	if !changed {
		return args
	}
	return []value{args[0], out}
}
