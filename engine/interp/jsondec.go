package interp

// encoding/json.Unmarshal with CONCRETE data into interpreter values, following the
// real decoder's documented behaviour, in particular what it re-uses: a non-nil pointer is
// decoded into the object it points to, a slice is decoded element by element into its
// existing elements (then truncated), struct members absent from the data are left alone.
// Every write goes through interpreter.store, so frozen cells report a store.
// Types with their own UnmarshalJSON / UnmarshalText are not supported (unsupported => inconclusive).

import (
	"encoding/json"
	"go/token"
	"go/types"

	"golang.org/x/tools/go/ssa"
	"reflect"
	"strings"
)

func (i *interpreter) hasMethod(T types.Type, name string) bool {
	ms := i.prog.MethodSets.MethodSet(types.NewPointer(T))
	for k := 0; k < ms.Len(); k++ {
		if ms.At(k).Obj().Name() == name {
			return true
		}
	}
	return false
}

type jsonDecodeError struct{ err value }

// jsonDecodeTop decodes into the target itself: if the target type has its own UnmarshalJSON and we are not already
// inside it, that method runs; encoding/json does the same.
func (i *interpreter) jsonDecodeTop(T types.Type, addr *value, data interface{}) {
	if _, isNamed := T.(*types.Named); isNamed {
		if fn := i.methodOf(types.NewPointer(T), "UnmarshalJSON"); fn != nil && !i.insideUnmarshalOf(fn) {
			i.jsonDecode(T, addr, data)
			return
		}
	}
	i.jsonDecodeStruct(T, addr, data)
}

// insideUnmarshalOf: is fn already on the interpreter's call stack (it called json.Unmarshal on its own receiver type,
// usually through an alias type, which has no methods - so this only guards direct recursion)?
func (i *interpreter) insideUnmarshalOf(fn *ssa.Function) bool {
	for fr := i.jsonFrame; fr != nil; fr = fr.caller {
		if fr.fn == fn {
			return true
		}
	}
	return false
}

// jsonDecodeStruct decodes without consulting the target type's own unmarshaller.
func (i *interpreter) jsonDecodeStruct(T types.Type, addr *value, data interface{}) {
	i.jsonDecodeInner(T, addr, data, true)
}

type jsonField struct {
	path []int
	typ  types.Type
}

// jsonFields: serialised members of a struct type (embedded structs without a tag are flattened).
func (i *interpreter) jsonFields(st *types.Struct, prefix []int, out map[string]jsonField) {
	for k := 0; k < st.NumFields(); k++ {
		f := st.Field(k)
		tag := reflect.StructTag(st.Tag(k)).Get("json")
		name := strings.Split(tag, ",")[0]
		if name == "-" && tag == "-" {
			continue
		}
		path := append(append([]int{}, prefix...), k)
		if f.Anonymous() && name == "" {
			ft := f.Type()
			if p, ok := ft.Underlying().(*types.Pointer); ok {
				// embedded pointer to a struct: its members are promoted; path element -1 means "through the pointer"
				if es, ok := p.Elem().Underlying().(*types.Struct); ok {
					i.jsonFields(es, append(append([]int{}, path...), -1), out)
					continue
				}
				unsup("json.Unmarshal: embedded pointer to a non-struct")
			}
			if es, ok := ft.Underlying().(*types.Struct); ok {
				i.jsonFields(es, path, out)
				continue
			}
		}
		if !f.Exported() {
			continue
		}
		if name == "" {
			name = f.Name()
		}
		out[strings.ToLower(name)] = jsonField{path, f.Type()}
	}
}

func (i *interpreter) jsonDecode(T types.Type, addr *value, data interface{}) {
	i.jsonDecodeInner(T, addr, data, false)
}

func (i *interpreter) jsonDecodeInner(T types.Type, addr *value, data interface{}, skipOwn bool) {
	if _, isNamed := T.(*types.Named); isNamed && !skipOwn {
		if fn := i.methodOf(types.NewPointer(T), "UnmarshalJSON"); fn != nil {
			// the type's own UnmarshalJSON runs (real code) on the member's JSON text
			raw, err := json.Marshal(data)
			if err != nil {
				unsup("json.Unmarshal: cannot re-serialise a member: %v", err)
			}
			bs := make([]value, len(raw))
			for k, b := range raw {
				bs[k] = b
			}
			res := call(i, i.jsonFrame, token.NoPos, fn, []value{addr, bs})
			if !isNilErr(res) {
				panic(jsonDecodeError{res})
			}
			return
		}
		if i.hasMethod(T, "UnmarshalText") {
			unsup("json.Unmarshal into %s, which has its own text unmarshaller", T)
		}
	}
	if data == nil {
		switch T.Underlying().(type) {
		case *types.Pointer, *types.Slice, *types.Map, *types.Interface:
			i.store(T, addr, zero(T))
		}
		return
	}
	switch U := T.Underlying().(type) {
	case *types.Pointer:
		p, _ := (*addr).(*value)
		if p == nil {
			cell := new(value)
			*cell = zero(U.Elem())
			i.jsonDecode(U.Elem(), cell, data)
			i.store(T, addr, cell)
			return
		}
		i.jsonDecode(U.Elem(), p, data) // decoded into the existing object
	case *types.Struct:
		obj, ok := data.(map[string]interface{})
		if !ok {
			unsup("json.Unmarshal: non-object for struct %s", T)
		}
		fields := map[string]jsonField{}
		i.jsonFields(U, nil, fields)
		keys := make([]string, 0, len(obj))
		for k := range obj {
			keys = append(keys, k)
		}
		sortStrings(keys)
		for _, k := range keys {
			f, ok := fields[strings.ToLower(k)]
			if !ok {
				continue
			}
			cur := (*addr).(structure)
			var cell *value
			for d, idx := range f.path {
				if idx == -1 {
					// through an embedded pointer (cell holds it)
					p, _ := (*cell).(*value)
					if p == nil {
						unsup("json.Unmarshal: nil embedded pointer")
					}
					cur = (*p).(structure)
					continue
				}
				cell = &cur[idx]
				if d < len(f.path)-1 && f.path[d+1] != -1 {
					cur = (*cell).(structure)
				}
			}
			i.jsonDecode(f.typ, cell, obj[k])
		}
	case *types.Slice:
		arr, ok := data.([]interface{})
		if !ok {
			unsup("json.Unmarshal: non-array for slice %s", T)
		}
		s, _ := (*addr).([]value)
		for k, e := range arr {
			if k >= len(s) {
				if k < cap(s) {
					i.logAppend(s, 1)
					s = s[:k+1]
					s[k] = zero(U.Elem())
				} else {
					ns := make([]value, len(s)+1, 2*len(s)+4)
					copy(ns, s)
					ns[k] = zero(U.Elem())
					s = ns
				}
			}
			i.jsonDecode(U.Elem(), &s[k], e) // existing elements are decoded into, not replaced
		}
		if len(arr) == 0 {
			s = make([]value, 0)
		} else {
			s = s[:len(arr)]
		}
		i.store(T, addr, s)
	case *types.Map:
		obj, ok := data.(map[string]interface{})
		if !ok {
			unsup("json.Unmarshal: non-object for map %s", T)
		}
		if b, ok := U.Key().Underlying().(*types.Basic); !ok || b.Kind() != types.String {
			unsup("json.Unmarshal: map key type %s", U.Key())
		}
		m, _ := (*addr).(*omap)
		if m == nil {
			m = makeMap(U.Key(), 0).(*omap)
			i.store(T, addr, m)
		}
		keys := make([]string, 0, len(obj))
		for k := range obj {
			keys = append(keys, k)
		}
		sortStrings(keys)
		for _, k := range keys {
			var cell value = zero(U.Elem())
			i.jsonDecode(U.Elem(), &cell, obj[k])
			m.insert(i, k, cell)
		}
	case *types.Basic:
		switch {
		case U.Info()&types.IsString != 0:
			s, ok := data.(string)
			if !ok {
				unsup("json.Unmarshal: non-string for %s", T)
			}
			i.store(T, addr, s)
		case U.Kind() == types.Bool:
			b, ok := data.(bool)
			if !ok {
				unsup("json.Unmarshal: non-bool for %s", T)
			}
			i.store(T, addr, b)
		default:
			unsup("json.Unmarshal: basic type %s", T)
		}
	default:
		unsup("json.Unmarshal into %s", T)
	}
}

func sortStrings(s []string) {
	for a := 1; a < len(s); a++ {
		for b := a; b > 0 && s[b] < s[b-1]; b-- {
			s[b], s[b-1] = s[b-1], s[b]
		}
	}
}

func init() {
	intrinsics["encoding/json.Unmarshal"] = func(fr *frame, args []value) value {
		raw, ok := concreteBytes(args[0])
		if !ok {
			return notHandled{}
		}
		tgt, ok := args[1].(iface)
		if !ok || tgt.t == nil {
			return notHandled{}
		}
		pt, ok := tgt.t.Underlying().(*types.Pointer)
		p, ok2 := tgt.v.(*value)
		if !ok || !ok2 || p == nil {
			return notHandled{}
		}
		var doc interface{}
		if err := json.Unmarshal(raw, &doc); err != nil {
			return fr.i.opaqueError("json: "+err.Error(), iface{})
		}
		prev := fr.i.jsonFrame
		fr.i.jsonFrame = fr
		defer func() { fr.i.jsonFrame = prev }()
		var result value = iface{}
		func() {
			defer func() {
				if p := recover(); p != nil {
					if je, ok := p.(jsonDecodeError); ok {
						result = je.err
						return
					}
					panic(p)
				}
			}()
			// the top-level target's own UnmarshalJSON is what called us (or there is none): decode its members
			fr.i.jsonDecodeTop(pt.Elem(), p, doc)
		}()
		return result
	}
}

func concreteBytes(v value) ([]byte, bool) {
	s, ok := v.([]value)
	if !ok {
		return nil, false
	}
	out := make([]byte, len(s))
	for k, b := range s {
		c, ok := b.(uint8)
		if !ok {
			return nil, false
		}
		out[k] = c
	}
	return out, true
}
