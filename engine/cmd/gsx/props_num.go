package main

var numSummaries = map[string]string{
	"(num.Amount).Rescale":  "num.sumRescale",
	"(num.Amount).Multiply": "num.sumMultiply",
	"(num.Amount).Divide":   "num.sumDivide",
}

func init() {
	reg(&propCfg{
		ID:      "C05",
		Pkgs:    []string{"num"},
		Lenient: []string{"num"},
		Stages: []stage{
			{Name: "L0", Harness: `^H_C05_L0_`},
			{Name: "L1", Harness: `^H_C05_L1_`, Subst: numSummaries, Needs: []string{"L0"}},
		},
		Functions: []string{"num.Amount.Rescale", "num.Amount.Multiply", "num.Amount.Divide", "num.intPow", "num.Amount.Add", "num.Amount.Subtract",
			"num.Amount.Compare", "num.Amount.Equals", "num.rescaleAmountPair", "num.Amount.Split", "num.Amount.RescaleUp", "num.Amount.RescaleDown",
			"num.Amount.RescaleRange", "num.Amount.MatchPrecision", "num.Amount.Upscale", "num.Amount.Downscale", "num.Amount.Remove", "num.Amount.Negate",
			"num.Amount.Invert", "num.Amount.Abs", "num.Amount.IsZero/IsNegative/IsPositive", "num.Percentage.Of", "num.Percentage.From", "num.Percentage.Factor",
			"num.Percentage.Amount", "num.Percentage.Rescale", "num.Percentage.Equals", "num.Percentage.Compare", "num.Percentage.Negate", "num.PercentageFromAmount",
			"num.ThresholdRule.compare"},
		Stubs: []string{"float64 arithmetic: sound real relaxation of IEEE-754 binary64 round-to-nearest (exact on integers <= 2^53 and on half-integers <= 2^52, monotone on the half-integer grid, relative error 2^-53 otherwise)",
			"math.Round: exact round-half-away on the real value (Int witness)", "layer 1: Rescale/Multiply/Divide replaced by their layer-0-proven integer specifications (sumRescale/sumMultiply/sumDivide) with the 2^52 domain assumed per call"},
		Bounds: map[string][]string{
			"quick":    {"values: every int64 with |v| < 2^52 (symbolic)", "exponents 0..4 for every operand and target (enumerated shapes)", "split count 1..2^20 (symbolic)", "intPow unwind <= 64"},
			"thorough": {"values: every int64 with |v| < 2^52 (symbolic)", "exponents 0..9 for every operand and target (enumerated shapes)", "split count 1..2^20 (symbolic)", "intPow unwind <= 64"},
		},
		Outside:     []string{"exponents >= 10 (quick: >= 5)", "magnitudes >= 2^52 units of the working precision (excluded by the property)", "division by a zero amount"},
		Assumptions: []string{"operands, exact intermediates and results lie within 2^52 units (the property's stated domain)", "go/ssa is faithful to the source; z3 is sound", "float model is a sound over-approximation of binary64 (DESIGN 3.2)"},
	})
}
