package main

var numSummaries = map[string]string{
	"(num.Amount).Rescale":  "num.sumRescale",
	"(num.Amount).Multiply": "num.sumMultiply",
	"(num.Amount).Divide":   "num.sumDivide",
}

func init() {
	reg(&propCfg{
		ID:      "C05",
		Pkgs:    []string{"num"},
		Lenient: []string{"num"},
		Stages: []stage{
			{Name: "L0", Harness: `^H_C05_L0_`},
			{Name: "L1", Harness: `^H_C05_L1_`, Subst: numSummaries, Needs: []string{"L0"}},
		},
		Functions: []string{"num.Amount.Rescale", "num.Amount.Multiply", "num.Amount.Divide", "num.intPow", "num.Amount.Add", "num.Amount.Subtract",
			"num.Amount.Compare", "num.Amount.Equals", "num.rescaleAmountPair", "num.Amount.Split", "num.Amount.RescaleUp", "num.Amount.RescaleDown",
			"num.Amount.RescaleRange", "num.Amount.MatchPrecision", "num.Amount.Upscale", "num.Amount.Downscale", "num.Amount.Remove", "num.Amount.Negate",
			"num.Amount.Invert", "num.Amount.Abs", "num.Amount.IsZero/IsNegative/IsPositive", "num.Percentage.Of", "num.Percentage.From", "num.Percentage.Factor",
			"num.Percentage.Amount", "num.Percentage.Rescale", "num.Percentage.Equals", "num.Percentage.Compare", "num.Percentage.Negate", "num.PercentageFromAmount",
			"num.ThresholdRule.compare"},
		Stubs: []string{"float64 arithmetic: sound real relaxation of IEEE-754 binary64 round-to-nearest (exact on integers <= 2^53 and on half-integers <= 2^52, monotone on the half-integer grid, relative error 2^-53 otherwise)",
			"math.Round: exact round-half-away on the real value (Int witness)", "layer 1: Rescale/Multiply/Divide replaced by their layer-0-proven integer specifications (sumRescale/sumMultiply/sumDivide) with the 2^52 domain assumed per call"},
		Bounds: map[string][]string{
			"quick":    {"values: every int64 with |v| < 2^52 (symbolic)", "exponents 0..4 for every operand and target (enumerated shapes)", "split count 1..2^20 (symbolic)", "intPow unwind <= 64"},
			"thorough": {"values: every int64 with |v| < 2^52 (symbolic)", "exponents 0..9 for every operand and target (enumerated shapes)", "split count 1..2^20 (symbolic)", "intPow unwind <= 64"},
		},
		Outside:     []string{"exponents >= 10 (quick: >= 5)", "magnitudes >= 2^52 units of the working precision (excluded by the property)", "division by a zero amount"},
		Assumptions: []string{"operands, exact intermediates and results lie within 2^52 units (the property's stated domain)", "go/ssa is faithful to the source; z3 is sound", "float model is a sound over-approximation of binary64 (DESIGN 3.2)"},
	})
	reg(&propCfg{
		ID:      "C06",
		Pkgs:    []string{"num"},
		Lenient: []string{"num"},
		Stages: []stage{
			{Name: "L0", Harness: `^H_C05_L0_`},
			{Name: "codec", Harness: `^H_C06_(Parse|Unmarshal|WriteAmount)`},
			{Name: "pct-writer", Harness: `^H_C06_WritePercentage`, Subst: numSummaries, Needs: []string{"L0"}},
		},
		Functions: []string{"num.AmountFromString", "num.Amount.UnmarshalText", "num.Amount.UnmarshalJSON", "num.unquote", "num.Amount.String", "num.Amount.MarshalText",
			"num.PercentageFromString", "num.PercentageFromAmount", "num.Percentage.String", "num.Percentage.StringWithoutSymbol", "num.Percentage.Amount", "num.Amount.JSONSchema", "num.Percentage.JSONSchema",
			"strconv.ParseInt", "strconv.ParseUint", "strconv.FormatUint", "strings.Split/genSplit", "strings.TrimPrefix"},
		Stubs: []string{"fmt.Sprintf: Go model (vrt.ModelSprintf) for %d %s %0*d", "strings.Index/Count/HasPrefix, bytealg.IndexByteString/CountString: Go loop models", "fmt.Errorf: opaque error object (only nil-ness observed)",
			"published pattern: NFA built by regexp/syntax from Amount{}.JSONSchema().Pattern, required equal to data/schemas/num/*.json", "float model as in C05 for the percentage rescale"},
		Bounds: map[string][]string{
			"quick":    {"reader: every string of 0..5 arbitrary bytes (all 256 values per byte, symbolic)", "long digit strings: 17..20 integer digits + 0..2 fraction digits, optional sign (digits symbolic)", "writer: every int64 value x exponent 0..18", "percent writer: |v| < 2^52/10^4, exponent 0..8"},
			"thorough": {"reader: every string of 0..8 arbitrary bytes (symbolic)", "long digit strings as quick", "writer: every int64 value x exponent 0..18", "percent writer as quick"},
		},
		Outside:     []string{"strings longer than the bound that are not pure digit strings", "percentages beyond the C05 domain (writer)"},
		Assumptions: []string{"percentage reader: the documented factor form without % and the empty string are accepted by design (doc comment of PercentageFromString); the oracle allows exactly those", "go/ssa faithful; z3 sound; models differential-tested"},
	})
}

func init() {
	reg(&propCfg{ID: "T", Pkgs: []string{"num"}, Lenient: []string{"num"}, Stages: []stage{{Name: "t", Harness: `^H_T_`}}, Bounds: map[string][]string{}})
}
