package main

// Per-property configuration: packages to load, stages (lemma layers with
// substitutions), and the descriptive material echoed in evidence.

type stage struct {
	Name         string
	Harness      string            // regexp over harness function names
	Subst        map[string]string // callee -> summary (spec) function, assume-guarantee layering
	Needs        []string          // lemma stages that must be clean
	MaxPaths     int
	BudgetS      int
	ThoroughOnly bool
}

type propCfg struct {
	ID          string
	Pkgs        []string
	Lenient     []string
	Stages      []stage
	TimeoutMs   int
	Functions   []string
	Stubs       []string
	Bounds      map[string][]string
	Outside     []string
	Assumptions []string
	Opaque      map[string]string // functions returning a placeholder string on symbolic arguments (message formatting)
}

var props = map[string]*propCfg{}

func reg(p *propCfg) { props[p.ID] = p }
