package main

import (
	"fmt"
	"go/ast"
	"go/parser"
	"go/token"
	"go/types"
	"os"
	"path/filepath"
	"sort"
	"strings"

	"golang.org/x/tools/go/packages"
	"golang.org/x/tools/go/ssa"
	"golang.org/x/tools/go/ssa/ssautil"
)

const modPath = "github.com/invopop/gobl"

// repoDir is /repo unless VERIF_REPO points at another checkout of the repository (used to try seeded changes
// in a scratch worktree without touching /repo; the gsx binary must then be built against the same tree).
var repoDir = func() string {
	if d := os.Getenv("VERIF_REPO"); d != "" {
		return d
	}
	return "/repo"
}()

// verifDir is /verif unless VERIF_DIR points at a snapshot of it (background runs).
var verifDir = func() string {
	if d := os.Getenv("VERIF_DIR"); d != "" {
		return d
	}
	return "/verif"
}()

type harnessFile struct {
	rel     string // package dir relative to repo ("num", "." ...)
	real    string // file under /verif/harness
	virtual string // path under /repo
	funcs   []string
}

// collectOverlay maps the vrt runtime and every harness file into /repo.
func collectOverlay() (map[string][]byte, []harnessFile, error) {
	ov := map[string][]byte{}
	vfiles, _ := filepath.Glob(filepath.Join(verifDir, "vrt", "*.go"))
	for _, f := range vfiles {
		if strings.HasSuffix(f, "_test.go") {
			continue
		}
		data, err := os.ReadFile(f)
		if err != nil {
			return nil, nil, err
		}
		ov[filepath.Join(repoDir, "internal", "vrt", filepath.Base(f))] = data
	}
	var hfs []harnessFile
	root := filepath.Join(verifDir, "harness")
	err := filepath.Walk(root, func(p string, info os.FileInfo, err error) error {
		if err != nil || info.IsDir() || !strings.HasSuffix(p, ".go") {
			return err
		}
		rel, _ := filepath.Rel(root, filepath.Dir(p))
		data, err := os.ReadFile(p)
		if err != nil {
			return err
		}
		virt := filepath.Join(repoDir, rel, "zz_verif_"+filepath.Base(p))
		ov[virt] = data
		hf := harnessFile{rel: rel, real: p, virtual: virt}
		fset := token.NewFileSet()
		af, perr := parser.ParseFile(fset, p, data, 0)
		if perr != nil {
			return perr
		}
		for _, d := range af.Decls {
			if fd, ok := d.(*ast.FuncDecl); ok && fd.Recv == nil && strings.HasPrefix(fd.Name.Name, "H_") {
				hf.funcs = append(hf.funcs, fd.Name.Name)
			}
		}
		hfs = append(hfs, hf)
		return nil
	})
	return ov, hfs, err
}

type loaded struct {
	prog  *ssa.Program
	pkgs  []*ssa.Package
	sizes types.Sizes
	hfs   []harnessFile
}

func pkgPathOf(rel string) string {
	if rel == "." {
		return modPath
	}
	return modPath + "/" + filepath.ToSlash(rel)
}

func loadProgram(rels []string) (*loaded, error) {
	ov, hfs, err := collectOverlay()
	if err != nil {
		return nil, err
	}
	cfg := &packages.Config{
		Mode: packages.NeedName | packages.NeedFiles | packages.NeedCompiledGoFiles | packages.NeedImports |
			packages.NeedDeps | packages.NeedTypes | packages.NeedSyntax | packages.NeedTypesInfo | packages.NeedTypesSizes | packages.NeedModule,
		Dir:        repoDir,
		Overlay:    ov,
		BuildFlags: []string{"-tags=verif"},
		Env:        append(os.Environ(), "GOFLAGS=-mod=mod", "GOPROXY=off", "GOSUMDB=off", "GOTOOLCHAIN=local"),
	}
	patterns := []string{"./internal/vrt", "strconv", "unicode/utf8", "strings", "bytes", "sort", "math", "errors", "fmt"}
	seen := map[string]bool{}
	for _, r := range rels {
		if !seen[r] {
			seen[r] = true
			patterns = append(patterns, "./"+r)
		}
	}
	initial, err := packages.Load(cfg, patterns...)
	if err != nil {
		return nil, err
	}
	nerr := 0
	packages.Visit(initial, nil, func(p *packages.Package) {
		for _, e := range p.Errors {
			fmt.Fprintf(os.Stderr, "load error: %s: %v\n", p.PkgPath, e)
			nerr++
		}
	})
	if nerr > 0 {
		return nil, fmt.Errorf("%d package load errors", nerr)
	}
	prog, pkgs := ssautil.AllPackages(initial, ssa.InstantiateGenerics|ssa.SanityCheckFunctions)
	prog.Build()
	var sizes types.Sizes
	for _, p := range initial {
		if p.TypesSizes != nil {
			sizes = p.TypesSizes
			break
		}
	}
	sort.Slice(hfs, func(i, j int) bool { return hfs[i].real < hfs[j].real })
	return &loaded{prog: prog, pkgs: pkgs, sizes: sizes, hfs: hfs}, nil
}
