package main

func init() {
	regs := []string{"regimes/common", "regimes/de", "regimes/it", "regimes/fr", "regimes/pl", "regimes/gr", "regimes/at", "regimes/be", "regimes/ch", "regimes/co", "regimes/nl", "regimes/pt", "regimes/br", "regimes/in", "regimes/es", "regimes/gb", "regimes/mx", "regimes/ae", "tax"}
	reg(&propCfg{
		ID:      "C13",
		Pkgs:    regs,
		Lenient: regs,
		Stages: []stage{
			{Name: "checkdigits", Harness: `^H_C13_(Luhn|DE|IT|FR|FR_SIREN|PL|GR|AT|BE|CH|NL_Digits|NL_Format|PT|PL_SingleDigit|IT_SingleDigit|CH_SingleDigit|FR_SingleDigit|BR|IN|ES_Personal|ES_Org|NormalizeGeneric|CH_Normalize|FR_Normalize|GR_Normalize|IN_Normalize|GB|GB_Branch|GB_Special|MX|MX_Normalize|AE)$`},
			{Name: "checkdigits-thorough", Harness: `^H_C13_(CO|NL|DE_SingleDigit|AT_SingleDigit|ES_SingleDigit)$`, ThoroughOnly: true, BudgetS: 150},
		},
		Functions: []string{"regimes/common.ComputeLuhnCheckDigit", "regimes/de.validateTaxCode+validateTaxCodeChecksum", "regimes/it.validateTaxCode", "regimes/fr.validateVATTaxCode+calculateVATCheckDigit+validateSIRENTaxCode",
			"regimes/pl.validateTaxCode+validateNIPChecksum", "regimes/gr.validateTaxCode+hasValidChecksum", "regimes/at.validateTaxCode+commercialCheck", "regimes/be.validateTaxCode+commercialCheck",
			"regimes/ch.validateTaxCode+commercialCheck", "regimes/co.validateTaxCode+validateDigits", "regimes/nl.validateTaxCode+validateDigits+mod11+checkMod97", "regimes/pt.validateTaxCode", "regimes/br.validateTaxCode+verifyDigit", "regimes/in.validateTaxCode+hasValidChecksum", "regimes/es.validateTaxCode+DetermineTaxCodeType+verifyNationalCode+verifyForeignCode+verifyOrgCode+verifyOtherCode+extractMatches",
			"regimes/gb.validateTaxCode+commercialCheck+governmentDepartmentCheck+healthAuthorityCheck", "regimes/mx.ValidateTaxCode+DetermineTaxCodeType+NormalizeTaxCode", "regimes/ae.validateTRNCode", "regimes/fr.normalizeTaxIdentity", "tax.NormalizeIdentity",
			"strconv.Atoi", "strconv.ParseInt", "unicode/utf8.DecodeRuneInString", "unicode.IsDigit"},
		Stubs: []string{"regexp matching: NFA built with regexp/syntax from the pattern string given to regexp.MustCompile in the package initialiser", "regexp FindStringSubmatch / SubexpNames on symbolic strings: for anchored patterns whose pieces all have a fixed width the group offsets are computed from the pattern", "math.Mod/Floor on integer-valued floats; float64 division through the C05 float model",
			"fmt.Sprintf (%02d, NL%sB%s): Go model", "errors.New executed; fmt.Errorf opaque"},
		Bounds: map[string][]string{
			"quick":    {"candidate code: every ASCII string (bytes 0..127, symbolic) at the national length and at length -1/+1 (BE: both admitted lengths and +-1), regimes DE IT FR PL GR AT BE CH NL PT BR IN GB (9 and 12 digits, GD/HA) MX (RFC format: no check digit exists in the regime) AE (15-digit format) + Luhn; ES: nine-character codes of the personal kind (DNI / NIE: accepted iff the letter rule holds, the never-issued all-zero DNI left open) and of the organisation kind (accepted only with a matching control digit or letter; every code valid under the strict official rule accepted)", "single-digit 2-safety: every position x every pair of codes (IT, FR, PL, CH)", "normalisation: tax.NormalizeIdentity on every ASCII string of 1..4 bytes (6 thorough): idempotent, insensitive to an inserted separator, to letter case and to a leading country prefix, digits kept; regimes/ch.normalizeTaxIdentity on a valid UID with every suffix in every letter case (symbolic) and separators; regimes/gr.normalizeTaxIdentity and regimes/in.normalizeTaxIdentity on every code of 1..3 characters with every spelling of the country prefix (GR: under either country code); regimes/fr.normalizeTaxIdentity on every nine-character code over [0-9A-Z] not starting with FR, bare or (quick: one, thorough: eight) decorated spellings; regimes/mx.NormalizeTaxCode on every ASCII string of 1..4 bytes: idempotent, keeps exactly the upper-cased letters, digits and ampersands in order"},
			"thorough": {"quick plus CO and the single-digit 2-safety of DE, AT and the Spanish DNI"},
		},
		Outside:     []string{"GB: the reference is HMRC's mod 97 / mod 9755 rule plus the stem ranges of the library the regime file cites (there is no official publication of those ranges), two-digit check values 97..99 are taken as invalid as the implementation does; MX: no check digit is validated by the regime, only the format is compared; other regimes without a check digit", "codes shorter/longer by more than one byte than the national length", "regime-specific normalisers other than the Swiss, Mexican, Greek, Indian and French ones (French: nine-character codes only)", "non-ASCII bytes in candidate codes", "dispatch from tax.Identity.Validate through reflection-driven validation.ValidateStruct"},
		Assumptions: []string{"reference algorithms written from the sources cited in each regime file (national schemes)", "go/ssa faithful; z3 sound"},
	})
}

func init() {
	reg(&propCfg{
		ID:      "C12",
		Pkgs:    []string{"tax", "bill"},
		Lenient: []string{"tax", "num", "cal", "bill", "cbc", "org", "currency", "pay"},
		Stages: []stage{
			{Name: "rates", Harness: `^H_C12_`},
		},
		Functions: []string{"bill.calculate (value date / issue date choice, combo preparation on the lines)", "tax.(*RateDef).Value", "tax.(*RateValueDef).hasAnyTag", "tax.Extensions.Contains", "tax.checkRateValuesOrder", "tax.(*Combo).prepareRate", "tax.(*CategoryDef).RateDef",
			"civil.Date.Before", "cal.Date.IsValid"},
		Stubs: []string{"tax.AllRegimeDefs: executed natively on the real initialised registry, result graph imported by reflection (all shipped regime tables of the current tree)",
			"civil.Date.IsValid: native for concrete dates, Gregorian formula (leap years via Euclid witnesses) for symbolic dates", "ErrInvalidRate.WithMessage / fmt: opaque errors"},
		Bounds: map[string][]string{
			"quick":    {"every shipped regime x category x rate key x qualifier context (none, or the tags/extensions of each table value)", "date: every valid civil date 1900-01-01..2100-12-31 (symbolic year, month, day)", "generic lemma: tables of 1..3 unqualified values with symbolic dates", "document level: issue date and optional value date each any valid date 1990..2030 (symbolic), every dated VAT rate key of ES, PT, FR"},
			"thorough": {"same as quick"},
		},
		Outside:     []string{"tag/extension ordering inside tables (the code itself skips it, see its TODO)", "document types other than invoices at the document level"},
		Assumptions: []string{"native import reproduces the registry faithfully (reflection over the linked packages)", "go/ssa faithful; z3 sound"},
	})
}

func init() {
	reg(&propCfg{ID: "TT", Pkgs: []string{"tax", "bill"}, Lenient: []string{"tax", "num", "cal", "bill", "cbc", "org", "head", "uuid"}, Stages: []stage{{Name: "t", Harness: `^H_T_dbg`}}, Bounds: map[string][]string{}})
}

func init() {
	reg(&propCfg{
		ID:      "C20",
		Pkgs:    []string{"tax", "bill"},
		Lenient: []string{"tax", "num", "cal", "bill", "org", "currency", "cbc"},
		Stages: []stage{
			{Name: "L0", Harness: `^H_C05_L0_`},
			{Name: "summaries", Harness: `^H_C20_(Merge|Negate|NoAliasing)`},
			{Name: "payments", Harness: `^H_C20_Pay`, Subst: numSummaries, Needs: []string{"L0"}},
		},
		Functions: []string{"tax.(*Total).Merge", "tax.(*Total).Negate", "tax.(*Total).Clone", "tax.(*RateTotal).Matches", "tax.(*Total).round", "tax.Extensions.Equals", "num.Amount.Add/Negate",
			"bill.(*Payment).calculate", "bill.(*PaymentLine).calculate", "org.(*DocumentRef).Calculate", "currency.Convert", "currency.MatchExchangeRate", "currency.(*ExchangeRate).Convert"},
		Stubs: []string{"operands frozen: any store to a cell reachable from an operand is an event (engine) / a Dump difference (native replay)", "currency.Get: native registry import", "num.Amount.Rescale/Multiply/Divide replaced by proven summaries in the payment stage"},
		Bounds: map[string][]string{
			"quick":    {"two summaries: category VAT with 1..2 rate groups drawn from {21%, 10%+5.2% surcharge, 10%, exempt, 21% with extension, 10%+1.4% surcharge}, optional category surcharge, optional retained category; all amounts symbolic (|v| <= 2^40, 2 decimals)", "payments: <= 2 lines, debit/credit presence by choice, amounts symbolic, same or foreign currency with exchange rate"},
			"thorough": {"same as quick"},
		},
		Outside:     []string{"summaries whose corresponding amounts carry different exponents (Add then rounds to the receiver's precision by contract)", "more than two groups per category, more than two categories"},
		Assumptions: []string{"go/ssa faithful; z3 sound"},
	})
}

func init() {
	reg(&propCfg{
		ID:      "C02",
		Pkgs:    []string{"tax"},
		Lenient: []string{"tax", "num", "cal", "currency", "cbc"},
		Stages: []stage{
			{Name: "L0", Harness: `^H_C05_L0_`},
			{Name: "summary", Harness: `^H_C02_`, Subst: numSummaries, Needs: []string{"L0"}},
		},
		Functions: []string{"tax.(*TotalCalculator).Calculate", "prepareLines", "removeIncludedTaxes", "calculateBaseRateTotals", "mapTaxLines", "tax.(*Total).rateTotalFor", "tax.(*Total).Calculate",
			"calculateFinalSum", "calculateBaseCategoryTotal", "tax.(*Total).round", "tax.(*Total).Category", "tax.(*RateTotal).matches", "matchRoundingPrecision", "newCategoryTotal", "newRateTotal", "tax.Set.Get",
			"tax.Extensions.Equals/Contains", "tax.(*Combo).calculate/calculateForRegime/prepareRate", "num.Percentage.Of", "num.Amount.Remove/Add/Subtract/RescaleUp/MatchPrecision"},
		Stubs: []string{"num.Amount.Rescale/Multiply/Divide: proven integer summaries (C05 layer 0 re-run first)", "currency.Get, tax.RegimeDefFor: native registry import (real ES tables)"},
		Bounds: map[string][]string{
			"quick":    {"2 taxable lines; per line one combo in category A (percent present or exempt, optional surcharge, extension none/v1/v2, country ''/XX; percent from {21.0, 10.0}, surcharge from {5.2, 1.4}) and optionally one in category B; totals symbolic |v| <= 2^36 with currency or currency+2 decimals; EUR; both rounding rules; with and without tax-included category A", "regime ES: 2 lines, VAT key from {standard, reduced, standard+eqs, exempt, zero} and optional retained IRPF"},
			"thorough": {"2..3 lines (the third a plain 10 % row with or without surcharge); currencies EUR, JPY, BHD; percentages from {21.0, 10.0, 5.5}, surcharges from {5.2, 1.4}; larger spaces were tried and are not claimed: every attribute combination on three lines (1.7 million paths explored clean in 24 minutes without finishing) and fully symbolic percentage values (68 obligations unknown)"},
		},
		Outside:     []string{"more than 3 lines / 2 combos per line", "document discounts and charges as taxable rows (same interface, covered through C01 skeletons)"},
		Assumptions: []string{"amount arithmetic within the C05 domain", "go/ssa faithful; z3 sound"},
	})
}

var billFunctions = []string{"bill.calculate", "calculateLines", "calculateLine", "calculateLineDiscounts", "calculateLineCharges", "calculateLineItemPrice", "calculateLineSum",
	"calculateDiscounts", "calculateDiscountSum", "calculateCharges", "calculateChargeSum", "roundLines", "(*Line).round", "(*LineDiscount).round", "(*LineCharge).round", "roundDiscounts", "roundCharges",
	"(*Totals).reset", "(*Totals).round", "(*PaymentDetails).calculateAdvances", "(*PaymentDetails).totalAdvance", "pay.(*Terms).CalculateDues", "pay.(*Advance).CalculateFrom",
	"tax.ApplyRoundingRule", "tax.(*TotalCalculator).Calculate and callees (see C02)", "num.Amount.* / num.Percentage.* (composites executed, Rescale/Multiply/Divide by summaries)"}

var billStubs = []string{"num.Amount.Rescale/Multiply/Divide: proven integer summaries (C05 layer 0 re-run first)", "currency.Get / tax.Regimes().For: native registry import", "cal.TodayIn not reached (issue date set)"}

func billCfg(id string, harness string, bq, bt []string, outside []string) *propCfg {
	return &propCfg{
		ID:      id,
		Pkgs:    []string{"bill"},
		Lenient: []string{"bill", "tax", "num", "cal", "currency", "cbc", "org", "pay"},
		Stages: []stage{
			{Name: "L0", Harness: `^H_C05_L0_`},
			{Name: "documents", Harness: harness, Subst: numSummaries, Needs: []string{"L0"}},
		},
		Functions:   billFunctions,
		Stubs:       billStubs,
		Bounds:      map[string][]string{"quick": bq, "thorough": bt},
		Outside:     outside,
		Assumptions: []string{"amount arithmetic within the C05 domain (|values| <= 2^32 on inputs)", "go/ssa faithful; z3 sound"},
	}
}

func init() {
	shape := "invoice skeletons: 1..2 lines (price with currency or currency+2 decimals, quantity with 0 or 2 decimals, VAT 21% or 10%, optional line discount percent/fixed, optional line charge percent/fixed/rate), optional document discount and charge (percent/fixed), optional advance (percent/fixed) and percentage due date, optional tax-included prices; ALL prices, quantities and fixed amounts symbolic of either sign (|v| <= 2^32); EUR"
	reg(billCfg("C03", `^H_C03_`, []string{shape, "currency rounding rule; fixed amounts at currency precision; a supplied rounding amount next to a fixed advance; one line with every line-level construction (H_C03_LineVariants)"}, []string{shape + "; quantities from {3, -2, 7} on the first line; the larger alternatives of the skeleton (fixed line and document charges, a percentage advance alone); fully symbolic quantities and a second line with the full variety were tried, did not complete within the budget and are not claimed"},
		[]string{"more than 2 lines; sub-line breakdowns; foreign-currency items; regime-default rule selection (the rule is passed explicitly)"}))
	reg(billCfg("C04", `^H_C04_`, []string{shape, "one line; both rounding rules; fixed amounts with currency or currency+2 decimals; second calculation from the first one's heap with the tax summary kept or dropped; foreign-currency item with alternative price or exchange rate (H_C04_AltPrice); line price built from a breakdown of 1..2 sub-lines with group / sub-line currencies, sub-line prices with 2, 1 or 0 decimals (the coarser ones with a fractional quantity) (H_C04_Breakdown)"}, []string{shape + "; one line; quantities from {3, -2, 7} (larger spaces - tax-included prices by choice: 38002 paths clean in 24 minutes, the whole budget; - the bigger alternatives of the skeleton, JPY - explored 56165 / 58857 paths clean in 25 minutes without finishing and are not claimed)"},
		[]string{"byte identity of encoding/json output, struct-tag driven (un)marshalling, schema.Object insertion, string normalisers and scenario notes (reflection / regexp over unbounded strings)", "amount codec losslessness is C06"}))
}

func init() {
	shape := "invoice skeletons as in C03 (1..2 lines, optional discounts/charges/advances), all prices and amounts symbolic; EUR"
	c17 := billCfg("C17", `^H_C17_Order`, []string{shape, "swap of the two lines (rich lines; lines differing in percentage and surcharge); Invert twice (one rich line, or two lines with discounts; fixed amounts and rates non-zero); both rounding rules", "the shape of known finding C17-remove-included-fixed-document-row (one line, four-decimal price below 1.0000, fixed document discount of -1.00..-0.01, VAT included, rule precise) so that it is exercised in the quick tier"}, []string{shape + "; quantities from {3, -2, 7} on the first line; the larger alternatives of the skeleton (fixed line and document charges, a percentage advance alone); fully symbolic quantities and a second line with the full variety were tried, did not complete within the budget and are not claimed", "Invert also in JPY; removal of included VAT on one line (EUR)"},
		[]string{"permutations of more than two rows; discounts/charges with explicit bases and explicit-quantity rate charges; quick tier: line and document discounts only (charges, advances in thorough)"})
	c17.Opaque = map[string]string{"(num.Amount).String": "<amount>"}
	c17.Stubs = append(c17.Stubs, "num.Amount.String on a symbolic amount (only used to build the mismatch message of Invert): placeholder text", "cbc.NormalizeCode regexps: native regexp on concrete strings")
	c17.Stages = append(c17.Stages, stage{Name: "negation", Harness: `^H_C17_Invert`, Subst: numSummaries, Needs: []string{"L0"}, BudgetS: 300})
	c17.Stages = append(c17.Stages, stage{Name: "included-tax-known-shape", Harness: `^H_C17_RemoveIncludedFixedRow$`, Subst: numSummaries, Needs: []string{"L0"}, BudgetS: 60})
	c17.Stages = append(c17.Stages, stage{Name: "included-tax", Harness: `^H_C17_RemoveIncluded$`, Subst: numSummaries, Needs: []string{"L0"}, ThoroughOnly: true, BudgetS: 100})
	reg(c17)
}

func init() {
	reg(&propCfg{
		ID:      "C09",
		Pkgs:    []string{"head", ".", "internal/cli"},
		Lenient: []string{"head", "cbc", "dsig", "uuid", ".", "internal/cli"},
		Stages: []stage{
			{Name: "header-relation", Harness: `^H_C09_Contains`},
			{Name: "verification", Harness: `^H_C09_(Verify|Cli)`},
		},
		Functions: []string{"head.(*Header).Contains", "gobl.(*Envelope).Verify", "gobl.(*Envelope).verifySignature", "gobl.(*Envelope).VerifySignature", "dsig.(*Digest).String"},
		Stubs: []string{"JWS contract (symbolic runs): Signature.VerifyPayload(k, out) succeeds iff k is the signing key and then fills out with the header as signed; UnsafePayload fills it unconditionally; native replays use real ES256 keys and signatures",
			"fmt.Sprintf: Go model"},
		Bounds: map[string][]string{
			"quick":    {"envelope header with <= 2 stamps/links/tags, optional meta entry, notes, digest; signed header with <= 1 of each; every string one byte over {a,b} (all equal/different patterns)", "verification: 1..2 keys supplied, signer among them or not"},
			"thorough": {"<= 2 / <= 2 entries respectively (<= 3 / <= 2 did not finish within the time budget: 4.5 million paths explored clean, 186 work items left, not claimed)"},
		},
		Outside:     []string{"ES256 / JOSE themselves", "JSON / YAML parsing of envelopes"},
		Assumptions: []string{"JWS contract as documented by go-jose: verification with the signing key returns the signed payload, any other key fails"},
	})
}

func init() {
	reg(&propCfg{
		ID:      "C07",
		Pkgs:    []string{"c14n"},
		Lenient: []string{"c14n"},
		Stages:  []stage{{Name: "units", Harness: `^H_C07_`}},
		Functions: []string{"c14n.encodeString", "c14n.(*Object).Sort", "c14n.(*Object).MarshalJSON", "c14n.(*Attribute).MarshalJSON", "c14n.(*Array).MarshalJSON", "c14n.Integer.MarshalJSON",
			"c14n.Float.MarshalJSON (post-processing)", "c14n.String/Bool/Null.MarshalJSON", "c14n.safeSet", "unicode/utf8.DecodeRuneInString", "bytes.Buffer methods"},
		Stubs: []string{"strconv.AppendFloat(…,'E',-1,64): contract stub yielding symbolic text of the documented form -?d(.d+)?E[+-]dd+ (native replay uses the real formatter on the denoted float)",
			"sort.SliceStable: stable insertion sort driven by the real less closure", "strconv.FormatInt: digit model", "encoding/json.Decoder token layer: not encoded (see outside)"},
		Bounds: map[string][]string{
			"quick":    {"strings: every byte string of length 0..3 (all 256 values per byte)", "integers: every int64", "objects: 0..3 members, one-byte keys over a..d (distinct), values Integer(-99..99) / Null / Bool / one-byte String", "arrays: 0..3 such values", "float text: optional sign, 1 leading digit, 0..2 fraction digits, signed 2..3 digit exponent"},
			"thorough": {"strings of length 0..4; otherwise as quick"},
		},
		Outside:     []string{"the token layer (UnmarshalJSON/handleNextToken/...) on encoding/json.Decoder: malformed / empty / truncated / trailing input (DESIGN 8 #6, #7 not re-found by a check)", "nesting beyond one level", "strings longer than the bound"},
		Assumptions: []string{"README of c14n is the specification", "go/ssa faithful; z3 sound"},
	})
}

func init() {
	reg(&propCfg{
		ID:      "C14",
		Pkgs:    []string{"bill", ".", "c14n", "regimes", "addons", "tax"},
		Lenient: []string{"bill", "tax", "num", "cal", "currency", "cbc", "org", "pay", ".", "head", "dsig", "c14n", "l10n", "uuid", "i18n", "schema", "regimes/...", "addons/...", "catalogues/..."},
		Stages: []stage{
			{Name: "L0", Harness: `^H_C05_L0_`},
			{Name: "nil-patterns", Harness: `^H_C14_|^H_C07_Tokens`, Subst: numSummaries, Needs: []string{"L0"}},
			{Name: "addon-validators", Harness: `^H_C14V_`},
		},
		Functions: []string{"bill.calculate and callees on invoices", "bill.(*Payment).calculate", "bill.(*PaymentLine).calculate", "org.(*DocumentRef).Calculate", "bill.calculateLineItemPrice", "currency.Convert",
			"gobl.(*Envelope).Verify / verifySignature", "head.(*Header).Contains", "c14n token layer (H_C07_Tokens)", "bill.(*Invoice).ValidateWithContext and the validators of every regime and addon package it dispatches to"},
		Stubs:   append([]string{"JWS contract stubs as in C09; json.Decoder token stub as in C07"}, billStubs...),
		Bounds: map[string][]string{
			"quick":    {"one-line invoice: item nil / without price / with price; item currency, document currency, alt-price currency, preceding-document currency each from {'', EUR, USD, ZZZ (undefined)}; tax object, taxes, percent, discounts (empty / percent with nil or set base), rate charge with nil or set rate and quantity, payment details / advances / due dates, exchange rates: present or nil by choice; numbers symbolic in small ranges", "payment: one line, debit / credit nil or set, currencies as above, document reference nil / without tax / with tax", "envelope: header nil / without digest / with digest; signature list empty / real signature / entry without JWS / nil entry; with and without key", "validators: a calculated one-line invoice of ES, FR, IT, GR, DE, MX, PT or PL x every published addon key x tax object as calculated / nil / empty x customer present / nil x customer tax id present / nil x line taxes present / nil x payment details x credit-note type, through Invoice.Validate with the real regime and addon validators"},
			"thorough": {"same as quick"},
		},
		Outside:     []string{"arbitrary bytes through encoding/json / YAML parsing, hangs, the CLI process, error-key and JSON-serialisation of errors (reflection, I/O: not encodable)"},
		Assumptions: []string{"a panic reported by the interpreter is confirmed by running the same harness natively before it is reported"},
	})
}

func init() {
	reg(billCfg("C01", `^H_C01_`,
		[]string{"unit layer, each step from a symbolic pre-state: calculateLine (price with currency / +2 / +4 decimals, quantity with 0..2 decimals, percentage discount, percentage or rate charge), calculateSubLine (breakdown row: price with currency / +2 decimals, quantity 0..1 decimals, percentage discount and charge of the row sum), calculateDiscounts/Charges (+ sums, with and without explicit base), calculateAdvances/totalAdvance/CalculateDues, calculateLineItemPrice (USD/JPY item, exchange rate or alternative price); all values symbolic (|v| <= 2^32), both rounding rules; EUR", "whole pipeline under 'precise' against exact rational arithmetic (H_C01_Pipeline): 1-2 lines, price symbolic (|v| <= 10^6 units, 2 or 4 decimals), quantity from {3, -2, 7} with 0 or 2 decimals, optional 10 % line discount, optional 5 % document discount, VAT 21 %: sum, total, tax, total with tax and payable each less than one minor unit from the exact value (quick: the second line has 2 decimals and a whole quantity)"},
		[]string{"same with JPY and BHD"},
		[]string{"whole-pipeline comparison with a reference implementation under the precise rule and the 'less than a full minor unit' bound (only the per-step exactness is decided; the pipeline's accounting identities are decided under the currency rule in C03)", "breakdown rows beyond the single-row step (several discounts or charges per row, explicit bases, the line price derived from the rows)", "regime-default rule selection"}))
}

func init() {
	reg(&propCfg{
		ID:      "C15",
		Pkgs:    []string{"tax", "bill", "addons/pt/saft"},
		Lenient: []string{"tax", "cbc", "bill", "org", "num", "cal"},
		Stages:  []stage{{Name: "merge-helpers", Harness: `^H_C15_`}},
		Functions: []string{"tax.(*TagSet).Merge", "tax.(*CorrectionDefinition).Merge", "tax.Extensions.Merge", "tax.(*ScenarioSet).Merge", "tax.NewScenarioSet", "bill.(*Invoice).supportedTags", "bill.(*Invoice).correctionDef", "bill.(*Invoice).scenarioSummary", "tax.TagSetForSchema", "tax.(*ScenarioSet).SummaryFor"},
		Stubs:     []string{"operands frozen: every store to a cell reachable from an operand (including spare slice capacity) is an event; natively a deep dump of the operands is compared before/after and aliasing is asserted through two merges from one receiver"},
		Bounds: map[string][]string{
			"quick":    {"shared lists of 0..2 entries with 0..2 cells of spare capacity, one or two operand entries, duplicate or not; flags by choice"},
			"thorough": {"same as quick"},
		},
		Outside:     []string{"interleavings of goroutines, the race detector, result equivalence under contention, bulk request / response pairing: goroutines and channels are not encoded and a solver adds nothing to schedule enumeration; only the 'shared definitions are never written' sufficient condition is decided"},
		Assumptions: []string{"a data race on shared definitions needs a write to them after initialisation"},
	})
}

func init() {
	reg(&propCfg{
		ID:      "C16",
		Pkgs:    []string{"bill", "."},
		Lenient: []string{"bill", "tax", "cbc", "org", "num", "cal", "head", "uuid", ".", "schema", "dsig"},
		Stages:  []stage{{Name: "correct-replicate", Harness: `^H_C16_`}},
		Functions: []string{"bill.(*Invoice).Correct", "bill.(*Invoice).validatePrecedingData", "bill.(*Invoice).correctionDef", "bill.prepareCorrectionOptions", "bill.WithReason/WithStamps/WithSeries/WithIssueDate/WithExtension", "bill.Credit/Debit/Corrective",
			"head.WithHead", "bill.(*Invoice).Replicate", "tax.(*CorrectionDefinition).Merge", "cbc.Key.In"},
		Stubs: []string{"the final Invoice.Calculate of Correct: stub returning success (recalculation is the subject of C01-C04)", "cal.Today: an arbitrary fixed day", "regime correction definitions: native registry import (ES, MX, PL, GR and none)",
			"schema.Object.Clone / Envelope.Correct / Envelop (JSON round trip, reflection): not encoded — the harness hands Correct a copy, which is what Clone provides"},
		Bounds: map[string][]string{
			"quick":    {"source invoice with symbolic one-byte code / series / identifier suffix, code present or not; regimes none, ES, MX, PL, GR; options: type none/credit/debit/corrective, reason, stamps none / required+extra / other provider (via header or explicit), series, issue date, extension"},
			"thorough": {"same as quick"},
		},
		Outside:     []string{"fidelity of Object.Clone (JSON round trip) and envelope-level immutability of header and signatures", "CLI / bulk entry points' parsing", "addon-specific correction definitions"},
		Assumptions: []string{"Clone yields an independent copy"},
	})
}

func init() {
	reg(&propCfg{
		ID:      "C18",
		Pkgs:    []string{"tax", "bill", "regimes", "addons"},
		Lenient: []string{"tax", "cbc", "bill", "org", "num", "cal", "l10n", "currency", "uuid", "head", "pay", "regimes/...", "addons/...", "catalogues/...", "i18n", "dsig", "schema"},
		Stages:  []stage{{Name: "leaf-rules", Harness: `^H_C18_`}},
		Functions: []string{"tax.Extensions.Validate", "cbc.(*Definition).HasCode", "cbc.(*Definition).CodeDef", "tax.ExtensionForKey (native registry)", "regexp matching of the definition's pattern (NFA)",
			"tax.(*Combo).ValidateWithContext", "tax.(*RegimeDef).InCategories / InCategoryRates", "bill.(*Invoice).ValidateWithContext with every nested ValidateWithContext / Validate it reaches", "bill.(*Invoice).supportedTags", "tax.TagsIn", "tax.AddonRegistered", "tax.Regime.Validate", "currency.Code.Validate", "regime validators of ES and FR (regimes/es.Validate, regimes/fr.Validate)"},
		Stubs: []string{"registry look-ups (ExtensionForKey, AllAddonDefs, AllRegimeDefs, currency.Get, RegimeDefFor): native import; with a symbolic key the path forks over the registered keys of that length and 'none'", "cbc.Key.Validate on concrete keys: native call", "published files data/addons|regimes|catalogues|currency/*.json read at run time as the oracle",
			"github.com/invopop/validation: model of its reflective struct walker and value dispatcher (engine/interp/validation.go); govalidator.IsURL natively on concrete strings", "normalisation (reflection-driven tax.Normalize) is skipped: the skeleton invoice is built in normal form and calculated with bill.calculate"},
		Bounds: map[string][]string{
			"quick":    {"every registered extension key with <= 40 listed codes; candidate value: every ASCII string of 1..3 bytes (symbolic)", "derived keys: every registered extension key with '+zz' or '-zz' appended or its last character dropped, with a value the base key allows: defined / accepted only if that very key is published", "combo keys: 3 document regimes x 4 country overrides x 3 categories x 4 rate keys", "invoice references: a valid calculated one-line ES or FR invoice in which one reference is replaced: currency = every three capital letters (symbolic), regime country = every two capital letters (symbolic), tag from the pool of all published tags of 8 regimes/addons plus an undefined one, addon key from all published keys plus two undefined ones, 5 categories, 6 rate keys"},
			"thorough": {"keys with <= 300 listed codes"},
		},
		Outside:     []string{"reference positions other than those listed (identities, inboxes, units, payment means keys, scenario codes), document types other than invoices", "lower-case or longer currency / country candidates", "values longer than 3 bytes", "completeness (a defined reference being accepted) beyond the unchanged skeleton"},
		Assumptions: []string{"the published JSON files are the oracle of what non-Go consumers see"},
	})
}

func init() {
	reg(&propCfg{
		ID:      "C08",
		Pkgs:    []string{".", "c14n"},
		Lenient: []string{".", "head", "dsig", "schema", "uuid", "cbc", "c14n"},
		Stages:  []stage{{Name: "canonical-leaves-injective", Harness: `^H_C08_String|^H_C07_Float$|^H_C07_Integer$`}, {Name: "digest-flow", Harness: `^H_C08_Digest`}},
		Functions: []string{"gobl.(*Envelope).calculate", "gobl.(*Envelope).Digest", "gobl.(*Envelope).verifyDigest", "gobl.(*Envelope).ValidateWithContext/Validate", "dsig.(*Digest).Equals", "gobl.wrapError", "c14n.encodeString (two runs, 2-safety)", "c14n.Float.MarshalJSON and c14n.Integer.MarshalJSON (the C07 harnesses: the canonical text keeps every digit of mantissa and exponent, so it determines the number)"},
		Stubs: []string{"json.Marshal(document) = MARSHAL(content token), c14n.CanonicalJSON = C14N(.), sha256+hex (dsig.NewSHA256Digest) = SHA256(.): uninterpreted functions with injectivity instances (assumption)",
			"schema.Object.Calculate and validation.ValidateStructWithContext: outcome given by the harness (both outcomes explored)", "native replays use real note.Message documents, real canonicalisation and SHA-256"},
		Bounds: map[string][]string{
			"quick":    {"one envelope, content token before and after an edit (equal or different, symbolic), struct validation passing or failing, signed or not", "string injectivity: every pair of byte strings of length 0..2"},
			"thorough": {"same digest flow; string pairs of length 0..3"},
		},
		Outside:     []string{"every-field sweep of real serialised documents and content-preserving re-encodings (that half rests on C07's order / escape independence, stated not re-proved)", "SHA-256 and encoding/json themselves"},
		Assumptions: []string{"MARSHAL, C14N and SHA256 are injective on the contents considered (collision freedom is not a solver's business)"},
	})
}

func init() {
	reg(&propCfg{
		ID:      "C10",
		Pkgs:    []string{"."},
		Lenient: []string{".", "head", "dsig", "schema", "uuid", "cbc", "internal"},
		Stages:  []stage{{Name: "lifecycle", Harness: `^H_C10_`}},
		Functions: []string{"gobl.(*Envelope).Calculate/calculate", "gobl.(*Envelope).Sign", "gobl.(*Envelope).Unsign", "gobl.(*Envelope).Signed", "gobl.(*Envelope).Validate/ValidateWithContext", "gobl.(*Envelope).verifyDigest", "gobl.(*Envelope).Verify/verifySignature",
			"head.(*Header).ValidateWithContext", "head.(*Header).AddStamp / head.AddStamp", "head.detectDuplicateStamps", "head.(*Stamp).Validate", "head.(*Header).Contains", "dsig.(*Digest).Validate/Equals", "internal.SignedContext / IsSigned", "uuid.versionRule.Validate"},
		Stubs: []string{"document = abstract content token: json.Marshal / c14n / sha256 injective uninterpreted functions (as C08)",
			"schema.Object.Calculate succeeds; schema.Object.ValidateWithContext = harness flags (valid, valid-once-signed; all four combinations)",
			"dsig.PrivateKey.Sign: a signature carrying a JWS, bound to the key's public half and to a deep copy of the header as it is at that moment; VerifyPayload / UnsafePayload per the JWS contract",
			"github.com/invopop/validation: model of its reflective struct walker and value dispatcher (engine/interp/validation.go); rule code runs for real",
			"native replays: real note.Message documents, real ES256 keys and signatures"},
		Bounds: map[string][]string{
			"quick":    {"histories of 3 operations drawn from {calculate, edit document, sign key 0, sign key 1, unsign, stamp pa (symbolic value, overwrites), stamp pb, validate, verify} from a calculated or uncalculated start, followed by a final validate and verify; content tokens symbolic in 0..2"},
			"thorough": {"histories of 5 operations"},
		},
		Outside:     []string{"histories longer than the bound (no inductive argument is made)", "links, tags, meta and notes in the header (their containment is decided in C09)", "parsing an envelope from JSON (signature list with empty entries: see C14 for the panic side)", "insert of arbitrary documents, the code-required-when-signed rule of invoices (represented only by the valid-once-signed flag)"},
		Assumptions: []string{"JWS contract; injectivity of marshal / c14n / sha256"},
	})
}

func init() {
	reg(&propCfg{
		ID:      "C11",
		Pkgs:    []string{"cbc", "l10n", "cal", "tax", "regimes/es"},
		Lenient: []string{"cbc", "l10n", "cal", "tax", "regimes/es", "regimes/common", "num", "i18n"},
		Stages:  []stage{{Name: "leaf-conformance", Harness: `^H_C11_`}},
		Functions: []string{"cbc.Key.Validate", "cbc.Code.Validate", "l10n.Code.Validate", "cal.Date.Validate / IsZero / String", "cal.DateTime.Validate / IsZero / String", "validation.Match / Length rules (real code over the modelled reflection leaves)", "tax.(*Combo).ValidateWithContext (category code, with and without a regime)"},
		Stubs: []string{"regexp matching: NFA from the pattern string in the package initialiser", "civil.Date.IsValid / civil.Time.IsValid: Gregorian calendar formula / field ranges for symbolic values", "fmt.Sprintf %04d / %02d: Go model",
			"the published schema files data/schemas/{cbc/key,cbc/code,l10n/code,cal/date,cal/date-time}.json are read at run time as the oracle (pattern, minLength, maxLength, format)"},
		Bounds: map[string][]string{
			"quick":    {"keys, codes: every ASCII string of 1..4 bytes (symbolic); one string one byte longer than the published maximum", "dates: every year in -20000..20000, month in -1..14, day in -1..33 (symbolic); date-times additionally hour, minute, second around their ranges"},
			"thorough": {"strings of 1..6 bytes"},
		},
		Outside:     []string{"whether each published schema file is a valid JSON Schema with resolvable references (data, no symbolic dimension)", "struct-level constraints: required members, enumerations, additionalProperties, which are produced by reflection over struct tags", "leaf types other than the five listed; uuid and uri formats"},
		Assumptions: []string{"format \"date\" means RFC 3339 full-date (four-digit year)"},
	})
}
