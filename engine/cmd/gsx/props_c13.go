package main

func init() {
	regs := []string{"regimes/common", "regimes/de", "regimes/it", "regimes/fr", "regimes/pl", "regimes/gr", "regimes/at", "regimes/be", "regimes/ch", "regimes/co", "regimes/nl", "regimes/pt"}
	reg(&propCfg{
		ID:      "C13",
		Pkgs:    regs,
		Lenient: regs,
		Stages: []stage{
			{Name: "checkdigits", Harness: `^H_C13_(Luhn|DE|IT|FR|FR_SIREN|PL|GR|AT|BE|CH|NL_Digits|NL_Format|PT|PL_SingleDigit|IT_SingleDigit|CH_SingleDigit|FR_SingleDigit)$`},
			{Name: "checkdigits-thorough", Harness: `^H_C13_(CO|NL|DE_SingleDigit|AT_SingleDigit)$`, ThoroughOnly: true, BudgetS: 150},
		},
		Functions: []string{"regimes/common.ComputeLuhnCheckDigit", "regimes/de.validateTaxCode+validateTaxCodeChecksum", "regimes/it.validateTaxCode", "regimes/fr.validateVATTaxCode+calculateVATCheckDigit+validateSIRENTaxCode",
			"regimes/pl.validateTaxCode+validateNIPChecksum", "regimes/gr.validateTaxCode+hasValidChecksum", "regimes/at.validateTaxCode+commercialCheck", "regimes/be.validateTaxCode+commercialCheck",
			"regimes/ch.validateTaxCode+commercialCheck", "regimes/co.validateTaxCode+validateDigits", "regimes/nl.validateTaxCode+validateDigits+mod11+checkMod97", "regimes/pt.validateTaxCode",
			"strconv.Atoi", "strconv.ParseInt", "unicode/utf8.DecodeRuneInString", "unicode.IsDigit"},
		Stubs: []string{"regexp matching: NFA built with regexp/syntax from the pattern string given to regexp.MustCompile in the package initialiser", "math.Mod/Floor on integer-valued floats; float64 division through the C05 float model",
			"fmt.Sprintf (%02d, NL%sB%s): Go model", "errors.New executed; fmt.Errorf opaque"},
		Bounds: map[string][]string{
			"quick":    {"candidate code: every ASCII string (bytes 0..127, symbolic) at the national length and at length -1/+1 (BE: both admitted lengths and +-1), regimes DE IT FR PL GR AT BE CH NL PT + Luhn", "single-digit 2-safety: every position x every pair of codes (IT, FR, PL, CH)"},
			"thorough": {"quick plus CO and the single-digit 2-safety of DE and AT"},
		},
		Outside:     []string{"regimes ES, GB, IN, MX, BR (not encoded in this session)", "codes shorter/longer by more than one byte than the national length", "non-ASCII bytes in candidate codes", "dispatch from tax.Identity.Validate through reflection-driven validation.ValidateStruct"},
		Assumptions: []string{"reference algorithms written from the sources cited in each regime file (national schemes)", "go/ssa faithful; z3 sound"},
	})
}

func init() {
	reg(&propCfg{
		ID:      "C12",
		Pkgs:    []string{"tax"},
		Lenient: []string{"tax", "num", "cal"},
		Stages: []stage{
			{Name: "rates", Harness: `^H_C12_`},
		},
		Functions: []string{"tax.(*RateDef).Value", "tax.(*RateValueDef).hasAnyTag", "tax.Extensions.Contains", "tax.checkRateValuesOrder", "tax.(*Combo).prepareRate", "tax.(*CategoryDef).RateDef",
			"civil.Date.Before", "cal.Date.IsValid"},
		Stubs: []string{"tax.AllRegimeDefs: executed natively on the real initialised registry, result graph imported by reflection (all shipped regime tables of the current tree)",
			"civil.Date.IsValid: native for concrete dates, Gregorian formula (leap years via Euclid witnesses) for symbolic dates", "ErrInvalidRate.WithMessage / fmt: opaque errors"},
		Bounds: map[string][]string{
			"quick":    {"every shipped regime x category x rate key x qualifier context (none, or the tags/extensions of each table value)", "date: every valid civil date 1900-01-01..2100-12-31 (symbolic year, month, day)", "generic lemma: tables of 1..3 unqualified values with symbolic dates"},
			"thorough": {"same as quick"},
		},
		Outside:     []string{"choice of value date vs issue date at the top of bill.calculate (covered by the C01/C14 skeletons)", "tag/extension ordering inside tables (the code itself skips it, see its TODO)"},
		Assumptions: []string{"native import reproduces the registry faithfully (reflection over the linked packages)", "go/ssa faithful; z3 sound"},
	})
}

func init() {
	reg(&propCfg{ID: "TT", Pkgs: []string{"tax"}, Lenient: []string{"tax", "num", "cal"}, Stages: []stage{{Name: "t", Harness: `^H_T_dbg`}}, Bounds: map[string][]string{}})
}

func init() {
	reg(&propCfg{
		ID:      "C20",
		Pkgs:    []string{"tax", "bill"},
		Lenient: []string{"tax", "num", "cal", "bill", "org", "currency", "cbc"},
		Stages: []stage{
			{Name: "L0", Harness: `^H_C05_L0_`},
			{Name: "summaries", Harness: `^H_C20_(Merge|Negate|NoAliasing)`},
			{Name: "payments", Harness: `^H_C20_Pay`, Subst: numSummaries, Needs: []string{"L0"}},
		},
		Functions: []string{"tax.(*Total).Merge", "tax.(*Total).Negate", "tax.(*Total).Clone", "tax.(*RateTotal).Matches", "tax.(*Total).round", "tax.Extensions.Equals", "num.Amount.Add/Negate",
			"bill.(*Payment).calculate", "bill.(*PaymentLine).calculate", "org.(*DocumentRef).Calculate", "currency.Convert", "currency.MatchExchangeRate", "currency.(*ExchangeRate).Convert"},
		Stubs: []string{"operands frozen: any store to a cell reachable from an operand is an event (engine) / a Dump difference (native replay)", "currency.Get: native registry import", "num.Amount.Rescale/Multiply/Divide replaced by proven summaries in the payment stage"},
		Bounds: map[string][]string{
			"quick":    {"two summaries: category VAT with 1..2 rate groups drawn from {21%, 10%+5.2% surcharge, 10%, exempt, 21% with extension, 10%+1.4% surcharge}, optional category surcharge, optional retained category; all amounts symbolic (|v| <= 2^40, 2 decimals)", "payments: <= 2 lines, debit/credit presence by choice, amounts symbolic, same or foreign currency with exchange rate"},
			"thorough": {"same as quick"},
		},
		Outside:     []string{"summaries whose corresponding amounts carry different exponents (Add then rounds to the receiver's precision by contract)", "more than two groups per category, more than two categories"},
		Assumptions: []string{"go/ssa faithful; z3 sound"},
	})
}
