// gsx: solver-based checks of invopop/gobl by bounded symbolic execution of go/ssa.
package main

import (
	"encoding/json"
	"flag"
	"fmt"
	"os"
	"path/filepath"
	"regexp"
	"sort"
	"strconv"
	"strings"
	"time"

	"golang.org/x/tools/go/ssa"

	"gsx/interp"
)

var models = map[string]string{
	"fmt.Sprintf":                      "ModelSprintf",
	"internal/bytealg.IndexByteString": "ModelIndexByteString",
	"internal/bytealg.IndexByte":       "ModelIndexByte",
	"internal/bytealg.CountString":     "ModelCountString",
	"internal/bytealg.Equal":           "ModelEqualBytes",
	"bytes.Equal":                      "ModelEqualBytes",
	"strings.Index":                    "ModelIndex",
	"strings.IndexByte":                "ModelIndexByteString",
	"strings.Count":                    "ModelCount",
	"strings.HasPrefix":                "ModelHasPrefix",
	"strings.HasSuffix":                "ModelHasSuffix",
}

type knownFinding struct {
	Property    string `json:"property"`
	ID          string `json:"id"`
	Status      string `json:"status"` // open | fixed
	Description string `json:"description"`
	Witness     string `json:"witness,omitempty"`
	Commit      string `json:"commit,omitempty"`
	PanicIn     string `json:"panic_in,omitempty"` // for a class of panics: the function the panic is raised in
}

func loadKnown() (map[string]knownFinding, error) {
	out := map[string]knownFinding{}
	data, err := os.ReadFile(filepath.Join(verifDir, "known_findings.json"))
	if err != nil {
		if os.IsNotExist(err) {
			return out, nil
		}
		return nil, err
	}
	var doc struct {
		Findings []knownFinding `json:"findings"`
	}
	if err := json.Unmarshal(data, &doc); err != nil {
		return nil, err
	}
	for _, k := range doc.Findings {
		out[k.ID] = k
	}
	return out, nil
}

func main() {
	prop := flag.String("prop", "", "property id (C05 ...)")
	tier := flag.String("tier", "quick", "quick | thorough")
	harnessRe := flag.String("harness", "", "restrict to harnesses matching this regexp")
	workers := flag.Int("workers", 16, "workers")
	trace := flag.Bool("trace", false, "trace instructions")
	tmo := flag.Int("timeout", 0, "solver timeout ms (0: per tier)")
	logdir := flag.String("logdir", "", "solver log dir")
	budgetFlag := flag.Int("budget", 0, "override per-harness time budget (s)")
	noReplay := flag.Bool("noreplay", false, "skip native replay (debugging)")
	replayPath := flag.String("replay", "", "replay a recorded counterexample file natively")
	flag.Parse()

	if *replayPath != "" {
		os.Exit(replayFile(*replayPath))
	}
	cfg, ok := props[*prop]
	if !ok {
		fmt.Fprintf(os.Stderr, "unknown property %q\n", *prop)
		os.Exit(2)
	}
	seed := int64(0)
	if s := os.Getenv("VERIF_SEED"); s != "" {
		seed, _ = strconv.ParseInt(s, 10, 64)
	}
	t0 := time.Now()
	known, err := loadKnown()
	if err != nil {
		fmt.Fprintln(os.Stderr, "known_findings.json:", err)
		os.Exit(2)
	}
	ld, err := loadProgram(cfg.Pkgs)
	if err != nil {
		fmt.Fprintln(os.Stderr, "load:", err)
		os.Exit(2)
	}
	loadS := time.Since(t0).Seconds()
	thorough := *tier == "thorough"
	timeout := cfg.TimeoutMs
	if timeout == 0 {
		timeout = 20000
	}
	if thorough {
		timeout *= 3
	}
	if *tmo > 0 {
		timeout = *tmo
	}
	eng := &interp.Engine{
		Prog: ld.prog, Sizes: ld.sizes, KnownOpen: map[string]bool{}, MaxPicks: 300, Unwind: 64, MaxInstr: 5_000_000,
		SolverArgv: []string{"z3-new", "-in"}, SolverName: "z3 5.1.0 (second opinion on unknown: z3 4.8.12)", SolverTimeoutMs: timeout, BranchTimeoutMs: 400,
		SecondSolverArgv: []string{"z3", "-in"},
		InitPkgs:         map[string]bool{"strconv": true, "unicode/utf8": true, "math": true, "math/bits": true, "unicode": true, "sort": true, "bytes": true, "io": true},
		LenientPkgs:      map[string]bool{"time": true, "errors": true, "github.com/invopop/validation": true, "github.com/invopop/validation/is": true, "github.com/google/uuid": true},
		SelfTest:         !*noReplay && os.Getenv("GSX_NOSELFTEST") == "",
		Trace:            *trace, SessionPaths: 150, LogDir: *logdir, Thorough: thorough,
	}
	eng.OpaqueAlways = map[string]string{
		"(github.com/invopop/gobl.FieldErrors).Error":         "<field errors>",
		"(github.com/invopop/validation.Errors).Error":        "<validation errors>",
		"(*github.com/invopop/gobl.Error).Message":            "<message>",
		"(*github.com/invopop/gobl.Error).Error":              "<gobl error>",
		"(*github.com/invopop/gobl/internal/cli.Error).Error": "<cli error>",
	}
	eng.OpaqueStrings = map[string]string{}
	for k, v := range cfg.Opaque {
		eng.OpaqueStrings[resolveName(k)] = v
	}
	for _, p := range cfg.Lenient {
		if strings.HasSuffix(p, "/...") {
			// every loaded package below the prefix
			prefix := pkgPathOf(strings.TrimSuffix(p, "/..."))
			for _, sp := range ld.prog.AllPackages() {
				if sp.Pkg.Path() == prefix || strings.HasPrefix(sp.Pkg.Path(), prefix+"/") {
					eng.LenientPkgs[sp.Pkg.Path()] = true
				}
			}
			continue
		}
		eng.LenientPkgs[pkgPathOf(p)] = true
	}
	for id, k := range known {
		if k.Status == "open" {
			eng.KnownOpen[id] = true
		}
	}
	if err := eng.SetupModels(models); err != nil {
		fmt.Fprintln(os.Stderr, err)
		os.Exit(2)
	}
	var ws []*interp.Worker
	for k := 0; k < *workers; k++ {
		w, err := eng.NewWorker(k)
		if err != nil {
			fmt.Fprintln(os.Stderr, "worker:", err)
			os.Exit(2)
		}
		ws = append(ws, w)
	}
	defer func() {
		for _, w := range ws {
			w.Close()
		}
	}()

	// locate harness functions
	type hentry struct {
		name string
		fn   *ssa.Function
		rel  string
	}
	all := map[string]hentry{}
	for _, hf := range ld.hfs {
		pkg := ld.prog.ImportedPackage(pkgPathOf(hf.rel))
		if pkg == nil {
			continue
		}
		for _, fn := range hf.funcs {
			if f := pkg.Func(fn); f != nil {
				all[fn] = hentry{fn, f, hf.rel}
			}
		}
	}
	var filter *regexp.Regexp
	if *harnessRe != "" {
		filter = regexp.MustCompile(*harnessRe)
	}

	rep := &report{Partial: *harnessRe != "" || *noReplay || repoDir != "/repo", Prop: cfg.ID, Tier: *tier, Seed: seed, Cfg: cfg, LoadS: loadS, Solver: eng.SolverName, TimeoutMs: timeout}
	lemmaFailed := map[string]bool{}
	for _, st := range cfg.Stages {
		if st.ThoroughOnly && !thorough {
			continue
		}
		eng.ClearSubstitutions()
		skip := false
		var substNotes []string
		for from, to := range st.Subst {
			ff, tf := eng.FindFunc(resolveName(from)), eng.FindFunc(resolveName(to))
			if ff == nil || tf == nil {
				fmt.Fprintf(os.Stderr, "substitution %s -> %s: function not found\n", from, to)
				os.Exit(2)
			}
			eng.AddSubstitution(ff, tf)
			substNotes = append(substNotes, from+" := "+to)
		}
		for _, need := range st.Needs {
			if lemmaFailed[need] {
				skip = true
				rep.Notes = append(rep.Notes, fmt.Sprintf("stage %s not run with summaries: lemma stage %s was not clean (see its findings); its obligations are reported as inconclusive", st.Name, need))
			}
		}
		if skip {
			rep.Inconclusive++
			continue
		}
		re := regexp.MustCompile(st.Harness)
		var names []string
		for n := range all {
			if re.MatchString(n) && (filter == nil || filter.MatchString(n)) {
				names = append(names, n)
			}
		}
		sort.Strings(names)
		clean := true
		for _, n := range names {
			h := all[n]
			opts := interp.ExploreOpts{}
			if st.MaxPaths > 0 {
				opts.MaxPaths = st.MaxPaths
			}
			budget := st.BudgetS
			if budget == 0 {
				budget = 240
			}
			if thorough {
				budget *= 6
			}
			if *budgetFlag > 0 {
				budget = *budgetFlag
			}
			opts.Deadline = time.Now().Add(time.Duration(budget) * time.Second)
			sum := eng.Explore(h.fn, ws, opts)
			hr := &harnessReport{Name: n, Rel: h.rel, Stage: st.Name, Sum: sum, Subst: substNotes}
			if os.Getenv("GSX_PROFILE") != "" {
				fmt.Fprintf(os.Stderr, "  slowest path: %s\n", sum.Slowest)
				type kv struct {
					k string
					v float64
				}
				var kvs []kv
				for k, v := range sum.LabelTime {
					kvs = append(kvs, kv{k, v})
				}
				sort.Slice(kvs, func(a, b int) bool { return kvs[a].v > kvs[b].v })
				for i, e := range kvs {
					if i < 8 {
						fmt.Fprintf(os.Stderr, "  profile: %-60s %.1fs\n", e.k, e.v)
					}
				}
			}
			if os.Getenv("GSX_OBSERVE") != "" {
				fmt.Fprintf(os.Stderr, "  observes: %v\n", sum.LastObserves)
			}
			rep.Harnesses = append(rep.Harnesses, hr)
			fmt.Fprintf(os.Stderr, "[%s] %s: paths=%d outcomes=%v discharged=%d/%d findings=%d unknown=%d incomplete=%d unsupported=%d %.1fs (solver %.1fs cpu, %d calls, %d instrs)\n",
				st.Name, n, sum.Paths, sum.Outcomes, total(sum.AssertsOK), total(sum.AssertsSeen), len(sum.Findings), len(sum.Unknown), len(sum.Incomplete), len(sum.Unsupported), sum.WallS, sum.SolverS, sum.Queries, sum.Instrs)
			if len(sum.Findings) > 0 || len(sum.Unknown) > 0 || len(sum.Incomplete) > 0 || len(sum.Unsupported) > 0 {
				clean = false
			}
		}
		if !clean {
			lemmaFailed[st.Name] = true
		}
	}
	for _, w := range ws {
		rep.SolverErrors = append(rep.SolverErrors, w.SolverErrors()...)
	}
	code := rep.finish(ld, known, *noReplay, t0)
	for _, w := range ws {
		w.Close()
	}
	os.Exit(code)
}

func total(m map[string]int) int {
	n := 0
	for _, v := range m {
		n += v
	}
	return n
}

// resolveName expands "num.X" / "(num.T).M" shorthand to full import paths.
func resolveName(n string) string {
	if strings.Contains(n, modPath) || strings.HasPrefix(n, "strings.") || strings.HasPrefix(n, "strconv.") || strings.HasPrefix(n, "fmt.") {
		return n
	}
	if strings.HasPrefix(n, "(*") {
		return "(*" + modPath + "/" + n[2:]
	}
	if strings.HasPrefix(n, "(") {
		return "(" + modPath + "/" + n[1:]
	}
	return modPath + "/" + n
}
