package main

import (
	"flag"
	"fmt"
	"os"
	"regexp"
	"time"

	"gsx/interp"
)

func main() {
	harnessRe := flag.String("harness", ".*", "regexp of harness function names")
	pkgsFlag := flag.String("pkgs", "num", "comma separated package dirs (relative to /repo)")
	workers := flag.Int("workers", 8, "workers")
	trace := flag.Bool("trace", false, "trace")
	tmo := flag.Int("timeout", 10000, "solver timeout ms")
	logdir := flag.String("logdir", "", "solver log dir")
	flag.Parse()
	t0 := time.Now()
	ld, err := loadProgram(splitComma(*pkgsFlag))
	if err != nil {
		fmt.Fprintln(os.Stderr, "load:", err)
		os.Exit(2)
	}
	fmt.Fprintf(os.Stderr, "loaded in %.1fs\n", time.Since(t0).Seconds())
	eng := &interp.Engine{
		Prog: ld.prog, Sizes: ld.sizes, KnownOpen: map[string]bool{}, MaxPicks: 64, Unwind: 64, MaxInstr: 2_000_000,
		SolverArgv: []string{"z3", "-in"}, SolverName: "z3", SolverTimeoutMs: *tmo,
		InitPkgs:    map[string]bool{"strconv": true, "unicode/utf8": true, "math": true, "math/bits": true, "errors": false},
		LenientPkgs: map[string]bool{modPath + "/num": true},
		Trace:       *trace, SessionPaths: 200, LogDir: *logdir,
	}
	if err := eng.SetupModels(models); err != nil {
		fmt.Fprintln(os.Stderr, err)
		os.Exit(2)
	}
	var ws []*interp.Worker
	for k := 0; k < *workers; k++ {
		w, err := eng.NewWorker(k)
		if err != nil {
			fmt.Fprintln(os.Stderr, "worker:", err)
			os.Exit(2)
		}
		ws = append(ws, w)
	}
	fmt.Fprintf(os.Stderr, "workers ready at %.1fs\n", time.Since(t0).Seconds())
	re := regexp.MustCompile(*harnessRe)
	for _, hf := range ld.hfs {
		pkg := ld.prog.ImportedPackage(pkgPathOf(hf.rel))
		if pkg == nil {
			continue
		}
		for _, fn := range hf.funcs {
			if !re.MatchString(fn) {
				continue
			}
			f := pkg.Func(fn)
			sum := eng.Explore(f, ws, interp.ExploreOpts{})
			fmt.Printf("%s: paths=%d outcomes=%v ok=%v seen=%v unknown=%v incomplete=%v unsupported=%v wall=%.1fs q=%d\n",
				fn, sum.Paths, sum.Outcomes, sum.AssertsOK, sum.AssertsSeen, sum.Unknown, sum.Incomplete, sum.Unsupported, sum.WallS, sum.Queries)
			for _, fd := range sum.Findings {
				fmt.Printf("  FINDING %s %s %s model=%v decs=%s\n", fd.Kind, fd.Label, fd.Detail, fd.Model, fd.Decs)
			}
			for m, n := range sum.PanicMsgs {
				fmt.Printf("  PANIC x%d: %s\n", n, m)
			}
		}
	}
	for _, w := range ws {
		for _, e := range w.SolverErrors() {
			fmt.Println("  SOLVER-ERROR", e)
		}
		w.Close()
	}
}

var models = map[string]string{
	"fmt.Sprintf":                      "ModelSprintf",
	"internal/bytealg.IndexByteString": "ModelIndexByteString",
	"internal/bytealg.IndexByte":       "ModelIndexByte",
	"internal/bytealg.CountString":     "ModelCountString",
	"strings.Index":                    "ModelIndex",
	"strings.Count":                    "ModelCount",
	"strings.HasPrefix":                "ModelHasPrefix",
	"strings.HasSuffix":                "ModelHasSuffix",
}

func splitComma(s string) []string {
	var out []string
	cur := ""
	for _, ch := range s {
		if ch == ',' {
			if cur != "" {
				out = append(out, cur)
			}
			cur = ""
		} else {
			cur += string(ch)
		}
	}
	if cur != "" {
		out = append(out, cur)
	}
	return out
}
