package main

import (
	"math/big"
	"math/rand"
	"encoding/json"
	"fmt"
	"os"
	"path/filepath"
	"sort"
	"strings"
	"time"

	"gsx/interp"
)

type harnessReport struct {
	Name  string
	Rel   string
	Stage string
	Sum   *interp.Summary
	Subst []string
}

type report struct {
	Prop         string
	Tier         string
	Seed         int64
	Cfg          *propCfg
	LoadS        float64
	Solver       string
	TimeoutMs    int
	Harnesses    []*harnessReport
	Notes        []string
	Inconclusive int
	Partial      bool // restricted run (harness filter or replay switched off)
	SolverErrors []string
}

func (rep *report) finish(ld *loaded, known map[string]knownFinding, noReplay bool, t0 time.Time) int {
	// 1. collect findings, replay natively
	type fref struct {
		hr *harnessReport
		f  *interp.Finding
		id string
	}
	var refs []fref
	byRel := map[string][]replayItem{}
	for _, hr := range rep.Harnesses {
		// de-duplicate findings per (label, kind, known) keeping a few models each
		perKey := map[string]int{}
		for k := range hr.Sum.Findings {
			f := &hr.Sum.Findings[k]
			key := f.Kind + "|" + f.Label + "|" + f.KnownID
			perKey[key]++
			if perKey[key] > 40 {
				f.Replayed = "not-replayed (more than 40 models for this obligation)"
				continue
			}
			id := fmt.Sprintf("%s-%d", hr.Name, len(refs))
			refs = append(refs, fref{hr, f, id})
			byRel[hr.Rel] = append(byRel[hr.Rel], replayItem{ID: id, Harness: hr.Name, Model: f.Model})
		}
	}
	// translator validation: models of a sample of clean paths, to be run natively (expected: no failing assertion, no panic)
	type oref struct {
		hr    *harnessReport
		id    string
		model map[string]string
	}
	var okRefs []oref
	for _, hr := range rep.Harnesses {
		for k, m := range hr.Sum.OkModels {
			if k >= 12 {
				break
			}
			id := fmt.Sprintf("selftest-%s-%d", hr.Name, k)
			okRefs = append(okRefs, oref{hr, id, m})
			byRel[hr.Rel] = append(byRel[hr.Rel], replayItem{ID: id, Harness: hr.Name, Model: m})
		}
	}
	// native probing of obligations the solver left unknown: concrete inputs drawn from the path's input ranges
	type pref struct {
		hr    *harnessReport
		id    string
		label string
		model map[string]string
	}
	var probeRefs []pref
	for _, hr := range rep.Harnesses {
		per := 4000
		if rep.Tier == "thorough" {
			per = 20000
		}
		rng := rand.New(rand.NewSource(rep.Seed*7919 + int64(len(hr.Name))*104729 + int64(hashString(hr.Name))))
		for pi, ps := range hr.Sum.Probes {
			if pi >= 6 {
				break
			}
			for k := 0; k < per; k++ {
				m := map[string]string{}
				for n, v := range ps.Fixed {
					m[n] = v
				}
				for n, rg := range ps.Free {
					m[n] = drawInRange(rng, rg[0], rg[1])
				}
				id := fmt.Sprintf("probe-%s-%d-%d", hr.Name, pi, k)
				probeRefs = append(probeRefs, pref{hr, id, ps.Label, m})
				byRel[hr.Rel] = append(byRel[hr.Rel], replayItem{ID: id, Harness: hr.Name, Model: m})
			}
		}
	}
	replays := 0
	outDir := filepath.Join(verifDir, "out", "replay", rep.Prop)
	os.RemoveAll(outDir)
	var results map[string]replayResult
	if (len(refs) > 0 || len(okRefs) > 0 || len(probeRefs) > 0) && !noReplay {
		os.Setenv("VERIF_TIER", rep.Tier)
		var log string
		var err error
		results, log, err = nativeReplay(ld.hfs, byRel, outDir)
		if err != nil {
			rep.Notes = append(rep.Notes, "native replay failed: "+err.Error())
			os.WriteFile(filepath.Join(outDir, "replay.log"), []byte(log), 0o644)
		}
	}
	// frozen-write findings whose native deep-dump comparison shows no difference (a store of an equal value)
	// get a second native confirmation: the same harness twice at once under the race detector
	if len(refs) > 0 && !noReplay && results != nil {
		raceItems := map[string][]replayItem{}
		for _, r := range refs {
			if r.f.Kind != "frozen-write" {
				continue
			}
			res, ok := results[r.id]
			if !ok || res.Result != "ok" {
				continue
			}
			confirmed := false
			for _, l := range res.Labels {
				confirmed = confirmed || l == r.f.Label
			}
			if !confirmed {
				raceItems[r.hr.Rel] = append(raceItems[r.hr.Rel], replayItem{ID: r.id, Harness: r.hr.Name, Model: r.f.Model})
			}
		}
		if len(raceItems) > 0 {
			rres, _, err := nativeReplayMode(ld.hfs, raceItems, filepath.Join(outDir, "race"), true)
			if err != nil {
				rep.Notes = append(rep.Notes, "race-detector replay failed: "+err.Error())
			}
			for id, rr := range rres {
				for _, l := range rr.Labels {
					if strings.HasPrefix(l, "race-write:") {
						res := results[id]
						res.Result, res.Msg, res.RaceWrite = "fail", l, true
						results[id] = res
						break
					}
				}
			}
		}
	}
	selfRun, selfAgreed := 0, 0
	var selfLines []string
	for _, o := range okRefs {
		res, ok := results[o.id]
		if !ok {
			continue
		}
		selfRun++
		bad := res.Result == "panic"
		for _, l := range res.Labels {
			// a failing assertion that belongs to an open known-finding class is expected natively as well
			openKnown := false
			for _, id := range res.Known[l] {
				if k, ok := known[id]; ok && k.Status == "open" {
					openKnown = true
				}
			}
			if !openKnown {
				bad = true
			}
		}
		if bad {
			selfLines = append(selfLines, fmt.Sprintf("TRANSLATOR-MISMATCH property=%s harness=%s: a path the encoding found clean fails natively (%s %v %s) model=%v", rep.Prop, o.hr.Name, res.Result, res.Labels, res.Msg, o.model))
			rep.Inconclusive++
		} else {
			selfAgreed++
		}
	}
	violations := 0
	var violationLines, knownLines, mismatchLines []string
	knownSeen := map[string]bool{}
	// probes: a native failure of the very obligation that was unknown is a counterexample
	probesRun, probeHits := 0, map[string]bool{}
	for _, p := range probeRefs {
		res, ok := results[p.id]
		if !ok {
			continue
		}
		probesRun++
		hit := false
		openKnown := false
		for _, l := range res.Labels {
			if l == p.label {
				hit = true
				for _, id := range res.Known[l] {
					if k, ok := known[id]; ok && k.Status == "open" {
						openKnown = true
					}
				}
			}
		}
		key := p.hr.Name + "|" + p.label
		if !hit || openKnown || probeHits[key] {
			continue
		}
		probeHits[key] = true
		violations++
		path := filepath.Join(outDir, p.id+".json")
		rec := map[string]interface{}{"property": rep.Prop, "package": p.hr.Rel, "item": replayItem{ID: p.id, Harness: p.hr.Name, Model: p.model},
			"label": p.label, "kind": "assert", "detail": "found by native probing of an obligation the solver left unknown", "native": res.Result + " " + res.Msg}
		data, _ := json.MarshalIndent(rec, "", " ")
		os.MkdirAll(outDir, 0o755)
		os.WriteFile(path, data, 0o644)
		violationLines = append(violationLines, fmt.Sprintf("VIOLATION property=%s replay=%s  (%s assert:%s found by native probing of an obligation the solver left unknown model=%v)", rep.Prop, path, p.hr.Name, p.label, p.model))
	}
	for _, r := range refs {
		res, ok := results[r.id]
		if !ok {
			r.f.Replayed = "no-replay"
			rep.Inconclusive++
			continue
		}
		replays++
		confirmed := false
		switch r.f.Kind {
		case "assert", "frozen-write":
			for _, l := range res.Labels {
				if l == r.f.Label {
					confirmed = true
				}
			}
			if r.f.Kind == "frozen-write" && res.RaceWrite {
				confirmed = true
			}
		case "known":
			for _, l := range res.Labels {
				if l == r.f.Label {
					for _, id := range res.Known[l] {
						if id == r.f.KnownID {
							confirmed = true
						}
					}
				}
			}
		case "panic":
			confirmed = res.Result == "panic"
		case "known-panic":
			confirmed = res.Result == "panic"
			// the class covers only a panic raised in the recorded function; any other panic is an ordinary violation
			if k, ok := known[r.f.KnownID]; ok && k.Status == "open" && k.PanicIn != "" && strings.Contains(r.f.Detail, " in "+k.PanicIn) && strings.Contains(res.Msg+" "+r.f.Detail, k.PanicIn) {
				if confirmed {
					r.f.Kind = "known"
				}
			} else {
				r.f.Kind = "panic"
			}
		}
		if !confirmed {
			r.f.Replayed = "not-confirmed (native: " + res.Result + " " + strings.Join(res.Labels, ",") + " " + res.Msg + ")"
			mismatchLines = append(mismatchLines, fmt.Sprintf("ENCODING-MISMATCH property=%s harness=%s %s:%s model=%v native=%s", rep.Prop, r.hr.Name, r.f.Kind, r.f.Label, r.f.Model, res.Result))
			rep.Inconclusive++
			continue
		}
		r.f.Replayed = "confirmed"
		// a failing assertion natively may also fall in a known class
		if r.f.Kind == "assert" {
			for _, id := range res.Known[r.f.Label] {
				if k, ok := known[id]; ok && k.Status == "open" {
					r.f.Kind, r.f.KnownID = "known", id
				}
			}
		}
		if r.f.Kind == "known" {
			if !knownSeen[r.f.KnownID] {
				knownSeen[r.f.KnownID] = true
				k := known[r.f.KnownID]
				knownLines = append(knownLines, fmt.Sprintf("KNOWN-FINDING: property=%s %s: %s (harness %s, e.g. %v)", rep.Prop, k.ID, k.Description, r.hr.Name, r.f.Model))
			}
			continue
		}
		violations++
		path := filepath.Join(outDir, r.id+".json")
		rec := map[string]interface{}{"property": rep.Prop, "package": r.hr.Rel, "item": replayItem{ID: r.id, Harness: r.hr.Name, Model: r.f.Model},
			"label": r.f.Label, "kind": r.f.Kind, "detail": r.f.Detail, "native": res.Result + " " + res.Msg}
		data, _ := json.MarshalIndent(rec, "", " ")
		os.MkdirAll(outDir, 0o755)
		os.WriteFile(path, data, 0o644)
		violationLines = append(violationLines, fmt.Sprintf("VIOLATION property=%s replay=%s  (%s %s:%s %s model=%v)", rep.Prop, path, r.hr.Name, r.f.Kind, r.f.Label, r.f.Detail, r.f.Model))
	}

	// 2. aggregate
	var states, queries int
	var instrs int64
	discharged, seen := 0, 0
	unknown, incomplete, unsupported := 0, 0, 0
	outcomes := map[string]int{}
	var samples []interface{}
	var vacuous []string
	perHarness := []map[string]interface{}{}
	for _, hr := range rep.Harnesses {
		s := hr.Sum
		states += s.Paths
		instrs += s.Instrs
		queries += s.Queries
		discharged += total(s.AssertsOK)
		seen += total(s.AssertsSeen)
		unknown += len(s.Unknown)
		incomplete += len(s.Incomplete)
		for _, n := range s.Unsupported {
			unsupported += n
		}
		for k, v := range s.Outcomes {
			outcomes[k] += v
		}
		if total(s.AssertsSeen) == 0 {
			vacuous = append(vacuous, hr.Name)
		}
		if len(samples) < 8 && len(s.Samples) > 0 {
			samples = append(samples, map[string]interface{}{"harness": hr.Name, "path": s.Samples[0]})
		}
		ph := map[string]interface{}{"harness": hr.Name, "stage": hr.Stage, "paths": s.Paths, "outcomes": s.Outcomes,
			"obligations_reached": s.AssertsSeen, "obligations_discharged_unsat": s.AssertsOK, "wall_s": round2(s.WallS), "queries": s.Queries, "solver_cpu_s": round2(s.SolverS), "obligations_closed_by_term_identity": s.Trivial, "obligations_unsat_by_second_solver": s.SecondOpinion}
		if len(hr.Subst) > 0 {
			ph["summaries_substituted"] = hr.Subst
		}
		if len(s.Unknown) > 0 {
			ph["solver_unknown"] = s.Unknown
		}
		if len(s.Incomplete) > 0 {
			ph["incomplete"] = s.Incomplete
		}
		if len(s.Unsupported) > 0 {
			ph["unsupported_paths"] = s.Unsupported
		}
		if len(s.InternalAsm) > 0 {
			ph["engine_assumptions"] = s.InternalAsm
		}
		if len(s.PanicMsgs) > 0 {
			ph["panics"] = s.PanicMsgs
		}
		var fl []map[string]interface{}
		for _, f := range s.Findings {
			fl = append(fl, map[string]interface{}{"kind": f.Kind, "label": f.Label, "model": f.Model, "replay": f.Replayed, "known_id": f.KnownID, "detail": f.Detail})
		}
		if len(fl) > 0 {
			ph["counterexamples"] = fl
		}
		perHarness = append(perHarness, ph)
	}
	for _, f := range refs {
		if len(samples) < 12 && f.f.Replayed == "confirmed" {
			samples = append(samples, map[string]interface{}{"harness": f.hr.Name, "counterexample": f.f.Model, "label": f.f.Label, "kind": f.f.Kind})
		}
	}
	if len(samples) == 0 {
		samples = append(samples, "no harness ran")
	}
	wall := time.Since(t0).Seconds()
	cov := map[string]interface{}{
		"states":                        max1(states),
		"transitions":                   max1(int(instrs)),
		"traces_validated_against_impl": replays + selfRun,
		"translator_validation":         map[string]int{"clean_paths_replayed_natively": selfRun, "agreed": selfAgreed},
		"unknown_obligation_probes":     map[string]int{"native_runs": probesRun, "counterexamples_found": len(probeHits)},
		"samples":                       samples,
		"rule":                          "a state is one feasible path of a harness completed by the symbolic interpreter; transitions are SSA instructions interpreted; every obligation on a path is one solver query over all input values satisfying the path condition",
		"functions_encoded":             rep.Cfg.Functions,
		"bounds":                        rep.Cfg.Bounds[rep.Tier],
		"outside_claim":                 rep.Cfg.Outside,
		"stubs_and_models":              rep.Cfg.Stubs,
		"queries":                       map[string]int{"solver_calls": queries, "obligations_reached": seen, "obligations_unsat": discharged, "obligations_unknown": unknown},
		"path_outcomes":                 outcomes,
		"incomplete_paths":              incomplete,
		"unsupported_paths":             unsupported,
		"solver":                        rep.Solver,
		"solver_timeout_ms":             rep.TimeoutMs,
		"load_and_ssa_build_s":          round2(rep.LoadS),
		"harnesses":                     perHarness,
		"vacuous_harnesses":             vacuous,
		"known_findings_seen":           keys(knownSeen),
		"encoding_mismatches":           len(mismatchLines),
		"notes":                         rep.Notes,
		"solver_errors":                 rep.SolverErrors,
		"exhaustive":                    false,
	}
	ev := map[string]interface{}{
		"property_id": rep.Prop, "tier": rep.Tier, "seed": rep.Seed, "level": "model_checking",
		"coverage": cov, "assumptions": rep.Cfg.Assumptions, "wall_s": round2(wall), "violations": violations,
	}
	evDir := filepath.Join(verifDir, "evidence")
	if rep.Partial {
		// a debugging run (harness filter / no replay) does not describe the check: keep it out of the evidence directory
		evDir = filepath.Join(verifDir, "out", "evidence-partial")
	}
	os.MkdirAll(evDir, 0o755)
	data, _ := json.MarshalIndent(ev, "", " ")
	if rep.Tier == "thorough" && !rep.Partial {
		_ = os.WriteFile(filepath.Join(evDir, rep.Prop+".thorough.json"), data, 0o644)
	}
	if err := os.WriteFile(filepath.Join(evDir, rep.Prop+".json"), data, 0o644); err != nil {
		fmt.Fprintln(os.Stderr, "evidence:", err)
	}

	// 3. verdict lines
	for _, l := range knownLines {
		fmt.Println(l)
	}
	for _, l := range mismatchLines {
		fmt.Println(l)
	}
	for _, n := range rep.Notes {
		fmt.Println("NOTE:", n)
	}
	fmt.Printf("SUMMARY property=%s tier=%s paths=%d obligations=%d unsat=%d unknown=%d incomplete=%d unsupported=%d replays=%d violations=%d wall=%.1fs\n",
		rep.Prop, rep.Tier, states, seen, discharged, unknown, incomplete, unsupported, replays, violations, wall)
	if len(vacuous) > 0 {
		fmt.Printf("VACUOUS harnesses (no obligation reached): %v\n", vacuous)
	}
	if len(rep.SolverErrors) > 0 {
		fmt.Printf("SOLVER-ERRORS %d (queries concerned are inconclusive): %v\n", len(rep.SolverErrors), rep.SolverErrors[:min(3, len(rep.SolverErrors))])
	}
	for _, l := range selfLines {
		fmt.Println(l)
	}
	for _, l := range violationLines {
		fmt.Println(l)
	}
	if violations > 0 {
		return 1
	}
	return 0
}

func keys(m map[string]bool) []string {
	out := []string{}
	for k := range m {
		out = append(out, k)
	}
	sort.Strings(out)
	return out
}

func round2(f float64) float64 { return float64(int(f*100)) / 100 }
func max1(n int) int {
	if n < 1 {
		return 1
	}
	return n
}

func hashString(s string) uint32 {
	var h uint32 = 2166136261
	for i := 0; i < len(s); i++ {
		h = (h ^ uint32(s[i])) * 16777619
	}
	return h
}

// drawInRange draws an integer from [lo, hi] (decimal strings; "" = unbounded, taken as +-2^62): a mixture of small
// values, boundary values and uniform draws.
func drawInRange(rng *rand.Rand, lo, hi string) string {
	l, h := new(big.Int), new(big.Int)
	if _, ok := l.SetString(lo, 10); !ok {
		l.Lsh(big.NewInt(-1), 62)
	}
	if _, ok := h.SetString(hi, 10); !ok {
		h.Lsh(big.NewInt(1), 62)
	}
	if l.Cmp(h) >= 0 {
		return l.String()
	}
	clip := func(v *big.Int) *big.Int {
		if v.Cmp(l) < 0 {
			return new(big.Int).Set(l)
		}
		if v.Cmp(h) > 0 {
			return new(big.Int).Set(h)
		}
		return v
	}
	switch r := rng.Intn(10); {
	case r < 3: // small
		return clip(big.NewInt(int64(rng.Intn(2001) - 1000))).String()
	case r < 5: // very small
		return clip(big.NewInt(int64(rng.Intn(201) - 100))).String()
	case r < 6: // boundaries
		c := []*big.Int{l, h, new(big.Int).Add(l, big.NewInt(1)), new(big.Int).Sub(h, big.NewInt(1)), big.NewInt(0)}
		return clip(c[rng.Intn(len(c))]).String()
	default: // uniform, with a random magnitude
		span := new(big.Int).Sub(h, l)
		bits := span.BitLen()
		if bits > 1 {
			span = new(big.Int).Rsh(span, uint(rng.Intn(bits)))
		}
		if span.Sign() <= 0 {
			span = big.NewInt(1)
		}
		v := new(big.Int).Rand(rng, span)
		if rng.Intn(2) == 0 {
			return clip(new(big.Int).Add(l, v)).String()
		}
		// around zero
		if rng.Intn(2) == 0 {
			v.Neg(v)
		}
		return clip(v).String()
	}
}
