package main

import (
	"bufio"
	"bytes"
	"encoding/json"
	"fmt"
	"go/parser"
	"go/token"
	"os"
	"os/exec"
	"path/filepath"
	"sort"
	"strings"
)

type replayItem struct {
	ID      string            `json:"id"`
	Harness string            `json:"harness"`
	Model   map[string]string `json:"model"`
}

type replayResult struct {
	Result string   // ok | fail | panic | skip | missing
	Labels []string // failed assertion labels
	Known  map[string][]string
	Msg    string
	// RaceWrite: two concurrent native runs of the harness raced on a write inside the library
	RaceWrite bool
}

func pkgNameOf(file string) string {
	fset := token.NewFileSet()
	f, err := parser.ParseFile(fset, file, nil, parser.PackageClauseOnly)
	if err != nil {
		return ""
	}
	return f.Name.Name
}

// nativeReplay runs the harnesses natively (real compiled code, overlay build) on the given models.
func nativeReplay(hfs []harnessFile, byRel map[string][]replayItem, workDir string) (map[string]replayResult, string, error) {
	return nativeReplayMode(hfs, byRel, workDir, false)
}

// nativeReplayMode with race=true builds with the race detector and runs every item's harness in two goroutines
// at once (VRT_RACE=1): a data race whose write is in the library (not in the harness or its runtime) confirms
// that the run stores into something shared, even when the stored value equals the old one.
func nativeReplayMode(hfs []harnessFile, byRel map[string][]replayItem, workDir string, race bool) (map[string]replayResult, string, error) {
	out := map[string]replayResult{}
	if err := os.MkdirAll(workDir, 0o755); err != nil {
		return nil, "", err
	}
	ov := map[string]string{}
	vfiles, _ := filepath.Glob(filepath.Join(verifDir, "vrt", "*.go"))
	for _, f := range vfiles {
		ov[filepath.Join(repoDir, "internal", "vrt", filepath.Base(f))] = f
	}
	funcsByRel := map[string][]string{}
	pkgName := map[string]string{}
	for _, hf := range hfs {
		ov[hf.virtual] = hf.real
		funcsByRel[hf.rel] = append(funcsByRel[hf.rel], hf.funcs...)
		pkgName[hf.rel] = pkgNameOf(hf.real)
	}
	var rels []string
	for rel := range byRel {
		rels = append(rels, rel)
	}
	sort.Strings(rels)
	var logAll strings.Builder
	for _, rel := range rels {
		items := byRel[rel]
		// generated test driver
		var b strings.Builder
		fmt.Fprintf(&b, "//go:build verif\n\npackage %s\n\nimport (\n\t\"testing\"\n\n\t\"github.com/invopop/gobl/internal/vrt\"\n)\n\n", pkgName[rel])
		b.WriteString("func TestVrtReplay(t *testing.T) {\n\tvrt.RunReplay(map[string]func(){\n")
		fs := funcsByRel[rel]
		sort.Strings(fs)
		for _, fn := range fs {
			fmt.Fprintf(&b, "\t\t%q: %s,\n", fn, fn)
		}
		b.WriteString("\t})\n}\n")
		relTag := strings.ReplaceAll(rel, "/", "_")
		if relTag == "." {
			relTag = "root"
		}
		drv := filepath.Join(workDir, "driver_"+relTag+"_test.go")
		if err := os.WriteFile(drv, []byte(b.String()), 0o644); err != nil {
			return nil, "", err
		}
		ov2 := map[string]string{}
		for k, v := range ov {
			ov2[k] = v
		}
		ov2[filepath.Join(repoDir, rel, "zz_verif_driver_test.go")] = drv
		ovPath := filepath.Join(workDir, "overlay_"+relTag+".json")
		data, _ := json.Marshal(map[string]interface{}{"Replace": ov2})
		if err := os.WriteFile(ovPath, data, 0o644); err != nil {
			return nil, "", err
		}
		itemsPath := filepath.Join(workDir, "items_"+relTag+".json")
		idata, _ := json.MarshalIndent(items, "", " ")
		if err := os.WriteFile(itemsPath, idata, 0o644); err != nil {
			return nil, "", err
		}
		var buf bytes.Buffer
		var runErr error
		env := append(os.Environ(), "GOFLAGS=-mod=mod", "GOPROXY=off", "GOSUMDB=off", "GOTOOLCHAIN=local")
		if !race {
			cmd := exec.Command("go", "test", "-v", "-tags=verif", "-vet=off", "-count=1", "-overlay", ovPath, "-run", "^TestVrtReplay$", "-timeout", "600s", "./"+rel)
			cmd.Dir = repoDir
			cmd.Env = append(env, "VRT_REPLAY="+itemsPath)
			cmd.Stdout = &buf
			cmd.Stderr = &buf
			runErr = cmd.Run()
		} else {
			// one race-instrumented test binary, one process per item (the detector reports a racing pair of locations once per process)
			bin := filepath.Join(workDir, "race_"+relTag+".test")
			cmd := exec.Command("go", "test", "-c", "-race", "-tags=verif", "-vet=off", "-overlay", ovPath, "-o", bin, "./"+rel)
			cmd.Dir = repoDir
			cmd.Env = append(env, "CGO_ENABLED=1")
			cmd.Stdout = &buf
			cmd.Stderr = &buf
			if runErr = cmd.Run(); runErr == nil {
				for k, it := range items {
					one := filepath.Join(workDir, fmt.Sprintf("item_%s_%d.json", relTag, k))
					d, _ := json.Marshal([]replayItem{it})
					os.WriteFile(one, d, 0o644)
					run := exec.Command(bin, "-test.run", "^TestVrtReplay$", "-test.v", "-test.timeout", "300s")
					run.Dir = filepath.Join(repoDir, rel)
					run.Env = append(env, "VRT_REPLAY="+one, "VRT_RACE=1", "GORACE=halt_on_error=0")
					run.Stdout = &buf
					run.Stderr = &buf
					_ = run.Run() // the race detector makes the test fail: expected
				}
				os.Remove(bin)
			}
		}
		logAll.WriteString(buf.String())
		sc := bufio.NewScanner(&buf)
		sc.Buffer(make([]byte, 1<<20), 1<<24)
		cur := ""
		inRace, wantFn, wantFile, raceFn := false, false, false, ""
		for sc.Scan() {
			l := sc.Text()
			if race && cur != "" {
				t := strings.TrimSpace(l)
				switch {
				case strings.HasPrefix(t, "WARNING: DATA RACE"):
					inRace = true
				case inRace && strings.HasPrefix(t, "=================="):
					inRace = false
				case inRace && (strings.HasPrefix(t, "Write at") || strings.HasPrefix(t, "Previous write at")):
					wantFn = true
				case inRace && wantFn:
					wantFn, wantFile, raceFn = false, true, t
				case inRace && wantFile:
					wantFile = false
					if !strings.Contains(raceFn, "/internal/vrt.") && !strings.Contains(t, "zz_verif") && strings.Contains(raceFn, "github.com/invopop/gobl") {
						r := out[cur]
						r.Labels = append(r.Labels, "race-write:"+strings.TrimSuffix(raceFn, "()")+" "+t)
						out[cur] = r
					}
				}
			}
			switch {
			case strings.HasPrefix(l, "VRT-ITEM "):
				cur = strings.TrimPrefix(l, "VRT-ITEM ")
				out[cur] = replayResult{Result: "running", Known: map[string][]string{}}
			case strings.HasPrefix(l, "VRT-FAIL ") && cur != "":
				r := out[cur]
				rest := strings.TrimPrefix(l, "VRT-FAIL ")
				label, knownList := rest, ""
				if k := strings.Index(rest, " known=["); k >= 0 {
					label = rest[:k]
					knownList = strings.TrimSuffix(rest[k+len(" known=["):], "]")
				}
				label = strings.TrimPrefix(label, "label=")
				r.Labels = append(r.Labels, label)
				if knownList != "" {
					r.Known[label] = strings.Fields(knownList)
				}
				out[cur] = r
			case strings.HasPrefix(l, "VRT-END ") && cur != "":
				r := out[cur]
				f := strings.SplitN(strings.TrimPrefix(l, "VRT-END "), " ", 2)
				r.Result = f[0]
				if len(f) > 1 {
					r.Msg = f[1]
				}
				out[cur] = r
				cur = ""
			}
		}
		if runErr != nil && len(out) == 0 {
			return out, logAll.String(), fmt.Errorf("native replay build/run failed for ./%s: %v", rel, runErr)
		}
	}
	return out, logAll.String(), nil
}

// replayFile replays one recorded counterexample (written by a check) natively.
func replayFile(path string) int {
	data, err := os.ReadFile(path)
	if err != nil {
		fmt.Fprintln(os.Stderr, err)
		return 2
	}
	var rec struct {
		Property string     `json:"property"`
		Rel      string     `json:"package"`
		Item     replayItem `json:"item"`
		Label    string     `json:"label"`
		Kind     string     `json:"kind"`
	}
	if err := json.Unmarshal(data, &rec); err != nil {
		fmt.Fprintln(os.Stderr, err)
		return 2
	}
	_, hfs, err := collectOverlay()
	if err != nil {
		fmt.Fprintln(os.Stderr, err)
		return 2
	}
	work := filepath.Join(verifDir, "out", "replay-single")
	res, log, err := nativeReplay(hfs, map[string][]replayItem{rec.Rel: {rec.Item}}, work)
	if err != nil {
		fmt.Fprintln(os.Stderr, err)
		fmt.Fprintln(os.Stderr, log)
		return 2
	}
	r := res[rec.Item.ID]
	if rec.Kind == "frozen-write" && r.Result == "ok" {
		// a store of an equal value: confirm with two concurrent runs under the race detector
		rres, _, _ := nativeReplayMode(hfs, map[string][]replayItem{rec.Rel: {rec.Item}}, filepath.Join(work, "race"), true)
		for _, l := range rres[rec.Item.ID].Labels {
			if strings.HasPrefix(l, "race-write:") {
				r.Result, r.Msg = "fail", l
			}
		}
	}
	fmt.Printf("replay %s harness=%s model=%v -> %s labels=%v %s\n", rec.Property, rec.Item.Harness, rec.Item.Model, r.Result, r.Labels, r.Msg)
	if r.Result == "fail" || r.Result == "panic" {
		fmt.Printf("VIOLATION property=%s replay=%s\n", rec.Property, path)
		return 1
	}
	return 0
}
