import time, sys
exec(open('p9.py').read().split("def line(")[0])
def line(c, mode, price, qty, qe, pct, pe):
    f = c.rha_ref
    s = f(price*qty, 10**qe)
    if mode == 'mut_noround':   # mutant: percent applied to unrounded higher-precision sum
        d = f(price*qty*pct, 10**(pe+qe))
    else:
        d = f(s*pct, 10**pe)
    t = s - d
    return s, d, t
def run(nlines, mode):
    c = Ctx()
    s = Solver(); s.set("timeout", 120000)
    tot_i = 0; tot_r = 0; doms = []; outs = []
    vat = Int('vat'); ve = 3
    for i in range(nlines):
        price, qty, pct = Ints('price%d qty%d pct%d' % (i,i,i))
        si, di, ti = line(c, mode if i == nlines-1 else 'same', price, qty, 2, pct, 3)
        sr, dr, tr = line(c, 'same', price, qty, 2, pct, 3)
        doms += [absI(price*qty) < B, absI(sr*pct) < B, absI(price) < B, absI(qty) < B, pct >= 0, pct < 100000]
        tot_i = tot_i + ti; tot_r = tot_r + tr
        outs += [si != sr, di != dr]
    doms += [absI(tot_r*vat) < B, vat >= 0, vat < 100000]
    tax_i = c.rha_ref(tot_i*vat, 10**ve)
    tax_r = c.rha_ref(tot_r*vat, 10**ve)
    outs += [tax_i != tax_r, tot_i != tot_r]
    for x in c.cs + doms: s.add(x)
    s.add(Or(outs))
    t = time.time(); r = s.check()
    print("lines=%d mode=%s" % (nlines, mode), r, "%.2fs" % (time.time()-t))
    if r == sat:
        m = s.model()
        print({str(d): m[d] for d in m.decls() if str(d).startswith(('price','qty','pct','vat'))})
    sys.stdout.flush()
for n in (1,2,3): run(n, 'same')
for n in (1,2,3): run(n, 'mut_noround')
