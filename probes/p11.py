import time, sys
exec(open('p9.py').read().split("def line(")[0])
# price exp 4 (after RescaleUp to cur+2), qty exp 3 -> product exp 7, sum at exp 4 = rha(p/10^3)
def run(n, pct=False):
    c = Ctx(); s = Solver(); s.set("timeout", 120000)
    tot4 = 0; exact7 = 0; doms = []
    for i in range(n):
        price, qty = Ints('price%d qty%d' % (i,i))
        p = price*qty
        doms += [absI(p) < B]
        sm = c.rha_ref(p, 1000)          # exp 4
        if pct:
            d = Int('pct%d' % i)
            doms += [d >= 0, d <= 1000, absI(sm*d) < B]
            disc = c.rha_ref(sm*d, 1000)     # percent exp 3 -> discount at exp 4
            tot4 = tot4 + sm - disc
            # exact: p/10^7 * (1 - d/1000) = (p*1000 - p*d)/10^10 ; keep nonlinear p*d
            exact7 = exact7 + ToReal(p) - ToReal(p*d)/1000
        else:
            tot4 = tot4 + sm
            exact7 = exact7 + ToReal(p)
    pres = c.rha_ref(tot4, 100)          # exp 2
    for x in c.cs + doms: s.add(x)
    diff = ToReal(pres)*100000 - exact7    # in units of 10^-7
    s.add(Or(diff >= 100000, diff <= -100000))   # a full minor unit (10^-2 = 10^5 units of 10^-7)
    t = time.time(); r = s.check()
    print("lines=%d pct=%s" % (n, pct), r, "%.2fs" % (time.time()-t)); sys.stdout.flush()
for n in (1,2,3,5): run(n)
for n in (1,2): run(n, True)
