import time, sys
from z3 import *
U = Q(1, 2**53)
for bound in (2**52, 2**53+2**51):
  for e in range(1, 10):
    P, k, r, m = Ints('P k r m')
    v = Real('v')
    d = 10**e
    s = Solver()
    s.set("timeout", 60000)
    s.add(P >= 0, P < bound, P == k*d + r, r >= 0, r < d, k >= 0)
    q = ToReal(P) / d
    exact = Or(r == 0, 2*r == d)
    s.add(Implies(exact, v == q))
    s.add(Implies(Not(exact), And(v - q <= q*U, q - v <= q*U)))
    s.add(ToReal(m) - Q(1,2) <= v, v < ToReal(m) + Q(1,2))
    exp = k + If(2*r >= d, 1, 0)
    s.add(m != exp)
    t = time.time()
    res = s.check()
    print("bound~2^%d e=%d" % (bound.bit_length()-1, e), res, "%.2fs" % (time.time() - t), s.model() if res == sat else "")
