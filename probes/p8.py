import time, sys
from z3 import *
def run(bits, e, to=60000):
    p = BitVec('p', 64)
    d = 10**e
    s = SolverFor("QF_FPBV") if False else Solver()
    s.set("timeout", to)
    s.add(p >= 0, p < BitVecVal(2**bits, 64))
    fp = fpSignedToFP(RNE(), p, Float64())
    v = fpDiv(RNE(), fp, FPVal(float(d), Float64()))
    rv = fpRoundToIntegral(RNA(), v)
    m = fpToSBV(RTZ(), rv, BitVecSort(64))
    k = p / d   # signed div on BitVec
    r = SRem(p, BitVecVal(d,64))
    s.add(m != k + If(2*r >= d, BitVecVal(1,64), BitVecVal(0,64)))
    t = time.time()
    res = s.check()
    print("FPBV bits=%d e=%d" % (bits, e), res, "%.2fs" % (time.time()-t))
    sys.stdout.flush()
for bits in (12, 16, 24, 52):
    run(bits, 2)
