import time, sys
from z3 import *
U = Q(1, 2**53)
B = 2**52
cnt = [0]
def fresh(sort, name):
    cnt[0] += 1
    return Const("%s_%d" % (name, cnt[0]), sort)
def absI(x): return If(x >= 0, x, -x)
class Ctx:
    def __init__(self): self.cs = []; self.euclid = {}
    def add(self, c): self.cs.append(c)
    def divmod_const(self, x, d):
        key = (x.get_id(), d)
        if key in self.euclid: return self.euclid[key]
        q = fresh(IntSort(), 'q'); r = fresh(IntSort(), 'r')
        # truncated division (Go): x = q*d + r, |r|<d, sign(r)=sign(x)
        self.add(x == q*d + r)
        self.add(If(x >= 0, And(r >= 0, r < d), And(r <= 0, r > -d)))
        self.euclid[key] = (q, r)
        return q, r
    def rha_ref(self, x, d):  # reference: round half away x/d
        if d == 1: return x
        q, r = self.divmod_const(x, d)
        return If(x >= 0, q + If(2*r >= d, 1, 0), q - If(-2*r >= d, 1, 0))
    def impl_muldiv(self, p, d):
        # implementation: int64(math.Round(float64(p)/float64(d))), p exact int
        if d == 1:
            return p
        q, r = self.divmod_const(p, d)
        v = fresh(RealSort(), 'v'); m = fresh(IntSort(), 'm')
        exact = Or(r == 0, 2*r == d, 2*r == -d)
        qq = ToReal(p) / d
        aq = If(qq >= 0, qq, -qq)
        self.add(Implies(exact, v == qq))
        self.add(Implies(Not(exact), And(v - qq <= aq*U, qq - v <= aq*U)))
        self.add(If(v >= 0, And(ToReal(m) - Q(1,2) <= v, v < ToReal(m) + Q(1,2)),
                          And(ToReal(m) - Q(1,2) < v, v <= ToReal(m) + Q(1,2))))
        return m

def line(c, impl, price, qty, qe, pct, pe, vat, ve):
    f = c.impl_muldiv if impl else c.rha_ref
    s = f(price*qty, 10**qe)
    d = f(s*pct, 10**pe)
    t = s - d
    return s, d, t

def run(nlines, mutate=False):
    c = Ctx()
    s = Solver(); s.set("timeout", 120000)
    tot_i = 0; tot_r = 0
    doms = []
    outs = []
    vat = Int('vat'); ve = 3
    for i in range(nlines):
        price, qty, pct = Ints('price%d qty%d pct%d' % (i,i,i))
        si, di, ti = line(c, True, price, qty, 2, pct, 3, vat, ve)
        sr, dr, tr = line(c, False, price, qty, 2, pct, 3, vat, ve)
        doms += [absI(price*qty) < B, absI(sr*pct) < B, absI(price) < B, absI(qty) < B, pct >= 0, pct < 100000]
        tot_i = tot_i + ti; tot_r = tot_r + tr
        outs += [si != sr, di != dr]
    doms += [absI(tot_r*vat) < B, vat >= 0, vat < 100000]
    tax_i = c.impl_muldiv(tot_i*vat, 10**ve)
    if mutate:
        q, r = c.divmod_const(tot_r*vat, 10**ve)
        tax_r = q   # truncation instead of rounding
    else:
        tax_r = c.rha_ref(tot_r*vat, 10**ve)
    outs += [tax_i != tax_r, tot_i != tot_r]
    for x in c.cs + doms: s.add(x)
    s.add(Or(outs))
    t = time.time()
    r = s.check()
    print("lines=%d mutate=%s" % (nlines, mutate), r, "%.2fs" % (time.time()-t), "constraints", len(c.cs))
    if r == sat:
        m = s.model()
        print({str(d): m[d] for d in m.decls() if str(d).startswith(('price','qty','pct','vat'))})
    sys.stdout.flush()
for n in (1, 2, 3):
    run(n)
run(2, True)
