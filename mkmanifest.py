#!/usr/bin/env python3
"""Regenerates /verif/MANIFEST.json from the table below (kept in one place so it stays valid)."""
import json

BASE = json.load(open('/root/.vp/BASELINE.json'))['cmd']
TECH = "bounded symbolic execution of the real code's go/ssa + SMT (z3): each obligation is one solver query over all input values of a path; sat models are replayed against the natively compiled code"

CLAIMED = {
 "C05": dict(
   text="Bounded model checking by symbolic execution of the real num package (go/ssa) with z3: for every exponent shape in the bound, the solver shows for ALL int64 values in the 2^52 domain that each operation returns the exact rational result rounded half away from zero at the documented precision. Layer 0 proves Rescale/Multiply/Divide (float64 + math.Round, sound real relaxation of binary64) against integer-only references; layer 1 proves the remaining operations with those three replaced by their proven specifications.",
   note="Assumes: go/ssa faithful to the source, z3 4.8.12 sound, float64 model is a sound over-approximation (DESIGN 3.2), operands/intermediates/results within 2^52 units (the property's domain). Bounds: exponents 0..4 quick / 0..9 thorough per operand; values unbounded within the domain.",
   ref="DESIGN.md 5 (C05), 3"),
 "C06": dict(
   text="Bounded model checking of the real amount/percentage text codec (AmountFromString, Unmarshal*, String, PercentageFromString, real strconv.ParseInt source) with z3: for every string of up to N arbitrary bytes the solver shows acceptance <=> membership in the published pattern (NFA built from the JSONSchema pattern, required equal to data/schemas/num/*.json) and that the value read is the denoted decimal; for every int64 x exponent 0..18 the written text matches the pattern and reads back; 17-20 digit strings cover the 64-bit boundary.",
   note="Assumes go/ssa faithful, z3 sound, std-lib models (Sprintf, strconv digit formatting, strings.Index/Count) differential-tested; percentage reader also accepts the documented factor form and empty string. Bounds: strings <= 5 bytes quick / 8 thorough fully symbolic; long digit strings 17-20+0-2 digits. Known finding (open): MinInt64 does not read back.",
   ref="DESIGN.md 5 (C06)"),
 "C13": dict(
   text="Bounded model checking of the real check-digit validators (DE, IT, FR VAT+SIREN, PL, GR, AT, BE, CH, NL, PT, BR, IN, ES DNI/NIE/CIF, CO in thorough, common Luhn) with z3: for every ASCII string of the national length (and +-1) the solver shows accepted <=> national format and check digit per a reference statement of the published algorithm, and for IT/FR/PL/CH (DE/AT thorough) that no two accepted codes differ in exactly one digit (2-safety). Regular expressions are evaluated as NFAs built from the pattern strings in the package initialisers. Normalisation: for every ASCII string of 1..4 (6) bytes tax.NormalizeIdentity is idempotent, insensitive to separators, letter case and a leading country prefix, keeps the digits in order and yields only capitals and digits; the Swiss normaliser maps a valid UID written with any VAT suffix in any letter case and with separators to the bare code.",
   note="Assumes go/ssa faithful, z3 sound, reference algorithms transcribed from the cited national sources. ES organisation codes: sandwich between the lenient (digit or letter control) and the strict official rule. Outside: GB, MX; regime-specific normalisers other than CH; non-ASCII bytes; reflection-driven dispatch from tax.Identity.Validate. Defect found and fixed: NL accepted signs (2e5c770).",
   ref="DESIGN.md 5 (C13)"),
 "C11": dict(
   text="Leaf level only, bounded model checking with z3: for the string-valued leaf types whose published schema carries a pattern, a length limit or a format (cbc.Key, cbc.Code, l10n.Code, cal.Date, cal.DateTime) the solver shows that whatever the Go side accepts is written as text the published schema file accepts: every ASCII string of 1..4 (6) bytes accepted by Validate matches the published pattern and length limits (read from data/schemas at run time), a string longer than the published maximum is refused, and every date / date-time accepted by Validate (year, month, day, hour, minute, second symbolic around and far beyond their ranges) prints as RFC 3339 full-date / the published date-time pattern.",
   note="This decides only the part of C11 that has a symbolic dimension. Outside (not decided): validity of the schema files as JSON Schema and their references, struct-level constraints (required members, enumerations, additionalProperties) which come from reflection over struct tags, conformance of whole serialised documents, uuid and uri formats, other leaf types. Defect found and fixed: 629780d (years outside 0-9999).",
   ref="DESIGN.md 10.3, 10.7"),
 "C12": dict(
   text="Bounded model checking of rate selection with z3: for every shipped regime x category x rate key x qualifier context (tables imported natively from the initialised registry of the current tree) and for EVERY valid civil date 1900..2100 (symbolic year/month/day) the solver shows RateDef.Value and Combo.prepareRate return the applicable value with the latest start date on or before the date (none => error, exempt => no percent, surcharge copied); a generic lemma over arbitrary 1..3-value tables with symbolic dates shows the order check admits only strictly descending tables and Value is latest-on-or-before for them; at document level, for every pair of valid issue / value dates (symbolic, 1990..2030) and every dated VAT key of ES, PT and FR, bill.calculate gives the line the value in force on the value date when there is one, otherwise on the issue date.",
   note="Assumes native import by reflection is faithful, go/ssa faithful, z3 sound. Outside: ordering of tag/extension-qualified values (not checked by the code either). Defects found and fixed: start date exclusive (1536397), nil Since panic (d50e370).",
   ref="DESIGN.md 5 (C12)"),
 "C20": dict(
   text="Bounded model checking of tax.Total Merge/Negate/Clone and bill.Payment.calculate with z3 over a family of summary shapes (1-2 rate groups from six kinds incl. surcharges, exempt and extension-qualified rows, optional category surcharge, optional retained category) with ALL amounts symbolic: component-wise sums per category and rate group in both operand orders, sign flip of every amount incl. surcharges, merge-with-negation is zero, operands frozen (no store into an operand, result shares no mutable cell), payment total = sum of debit - credit converted with the declared rate, payment tax summary = merge of the documents' summaries.",
   note="Assumes go/ssa faithful, z3 sound, native currency registry import. Amounts of corresponding rows carry equal exponents (2 decimals); payment stage uses the C05-proven summaries of Rescale/Multiply/Divide (lemmas re-run first). Defects found and fixed: 0ae6075, a892f76, cea7416.",
   ref="DESIGN.md 5 (C20)"),
 "C02": dict(
   text="Bounded model checking of tax.TotalCalculator.Calculate / Total.Calculate with z3 over families of taxable lines (explicit-percentage combos with every combination of exempt / surcharge / extension / country override, a retained category with surcharge, tax-included category, both rounding rules; Spanish keyed rates from the natively imported regime): every contribution sits in exactly one rate group (groups distinguished by country, percentage, surcharge, extensions, exempt rows apart), group base = sum of its contributions, amount and surcharge = percentage of base, category = sum of groups, tax sum = ordinary - retained incl. surcharges, rounding only at the documented points; totals symbolic.",
   note="Assumes go/ssa faithful, z3 sound; amount arithmetic by the C05-proven summaries (lemmas re-run first); quick tier draws percentage values from {21.0, 10.0} / {5.2, 1.4} (equal and different pairs), thorough makes them symbolic. Bounds: 2 lines (thorough 3), <= 2 combos per line.",
   ref="DESIGN.md 5 (C02)"),
 "C03": dict(
   text="Bounded model checking of bill.calculate under the 'currency' rounding rule with z3 over invoice skeletons (1-2 lines, optional percent/fixed line discount, percent/rate/fixed line charge, document discount and charge, advances and percentage due date, tax-included prices) with ALL prices and fixed amounts symbolic: every presented figure re-adds exactly from the other presented figures (line total, document sum, total, rate amounts from presented bases, category and tax sums, total with tax, payable, due) and no figure carries more decimals than the currency. Laws on the output alone.",
   note="Assumes go/ssa faithful, z3 sound; amount arithmetic by the C05-proven summaries; quantities from a covering set in quick (symbolic in thorough); fixed amounts at currency precision (the property's assumption). Outside: > 2 lines, sub-line breakdowns, foreign-currency items, rule selection by regime default.",
   ref="DESIGN.md 5 (C03)"),
 "C04": dict(
   text="Numeric core only: bounded model checking (z3) that calculating an already calculated invoice skeleton again changes no amount, precision or index (fixpoint), for all symbolic prices/amounts, both rounding rules. Whole-document JSON byte identity, struct-tag (un)marshalling and string normalisers are outside the claim (reflection/regexp over unbounded strings); amount/percentage codec losslessness is C06.",
   note="Assumes go/ssa faithful, z3 sound; C05 summaries. Known finding (open): fixed amounts supplied with more decimals than they are presented at are rounded in place, so recalculation changes totals (class C04-fixed-amount-rounded-in-place).",
   ref="DESIGN.md 5 (C04), 6"),
 "C17": dict(
   text="Bounded model checking (z3) on invoice skeletons with all prices/amounts symbolic. Quick: (1) swapping the two lines of a document (every combination of optional discounts, charges, advances, tax-included prices, both rounding rules) changes no line figure, no document total and no tax group (2-safety: the real calculate runs on both orders); (2) Invoice.Invert succeeds, negates every line total, tax amount and document total, and twice restores them (one line with discounts, charges and advances, or two lines with discounts; thorough: two rich lines). The negation proof works because rounding half away from zero is encoded on a sign-canonical orientation of its argument, so that a computation and the same computation on negated inputs share their division witnesses. Thorough adds: removing included taxes yields payable = original total with tax with the residue in the rounding field (relational over different computations: whatever stays unknown is reported as not covered).",
   note="Assumes go/ssa faithful, z3 sound, C05 summaries (lemmas re-run first). Fixed amounts and rates are assumed non-zero in the Invert harness (a zero row is dropped by normalisation, i.e. it is the shape without the row). Outside: permutations of more than two rows; discounts/charges with explicit bases. Known finding (open): RemoveIncludedTaxes with a fixed document-level discount or charge (C17-remove-included-fixed-document-row).",
   ref="DESIGN.md 5 (C17), 10"),
 "C09": dict(
   text="Bounded model checking (z3) of signature verification logic: Header.Contains equals the seven-clause containment relation for every pattern of equal/different identifier, digest, stamps, links, tags, meta and notes (one-byte symbolic strings) and is monotone under additions; Envelope.Verify / VerifySignature accept iff a supplied key is the signer's and the current header contains the signed header (0-2 keys, either signer); cli.Verify - the single function behind the verify command, the bulk verify action and the HTTP endpoint - reports success iff the key is the signer's and the header was not changed after signing. JWS, parsing and validation are contract stubs in symbolic runs; counterexamples are replayed natively with real ES256 keys and real signed envelopes.",
   note="Assumes the JWS contract (verification with the signing key returns the signed payload, any other key fails), go/ssa faithful, z3 sound. Outside: ES256/JOSE themselves, JSON/YAML parsing. Defects found and fixed: 9131962 (nil digest panic), 8d4173a (cli.Verify ignored the header).",
   ref="DESIGN.md 5 (C09)"),
 "C08": dict(
   text="Digest data and control flow only, decided by symbolic execution with z3: with document serialisation, canonicalisation and SHA-256 as injective uninterpreted functions over an abstract content token, the real Envelope.calculate / Digest / Validate / verifyDigest are shown, for symbolic content tokens before and after an edit, to put exactly the digest of the current document into the header, to validate a calculated envelope iff its parts validate, to reject every envelope whose document content differs from the one digested (signed or not), and to produce a different digest after recalculation iff the content differs. A lemma stage decides, on the real c14n.encodeString, part of the injectivity that the digest flow assumes: the canonical form of every accepted byte string of up to 3 (4) bytes unescapes per RFC 8259 to the original, and no two different strings of up to 1 (2) bytes share a canonical form (2-safety). Native replays use real documents, canonical JSON and SHA-256.",
   note="Outside (not decided): the every-field sweep over real serialised documents (whether every member reaches the serialisation: reflection and encoding/json are beyond the encoder) and the re-encoding half, which rests on C07's member-order / escape independence. Injectivity of marshal/c14n/sha256 is an assumption.",
   ref="DESIGN.md 5 (C08)"),
 "C10": dict(
   text="Bounded model checking of the envelope lifecycle by symbolic execution with z3: every history of 3 (thorough 5) operations drawn from {calculate, edit document, sign with key 0 / key 1, unsign, add or overwrite stamp pa (symbolic value), add stamp pb, validate, verify}, from a calculated or uncalculated start and for each of the four document-validity kinds, is run through the real Envelope / Header / Stamp / Digest code and compared step by step with a reference state machine over the four facts (digest matches, document valid / valid once signed, signatures present, header contains each signed header): signing succeeds iff the envelope would validate as a signed one, a failed signing leaves no signature, stamps validate only on signed envelopes, verify succeeds iff every signature's key is supplied and its signed header is still contained, every signature entry carries a JWS. Content tokens and stamp values are symbolic; counterexamples are replayed natively with real documents (message, invalid message, invoice without code), real ES256 keys and signatures.",
   note="Stubs: document content as an abstract token with injective marshal/c14n/sha256 (C08), document validity as harness flags, JWS sign/verify contract, model of the validation library's reflective dispatcher. Outside: histories longer than the bound (no induction), links/tags/meta (containment decided in C09), parsing envelopes from JSON, insert of arbitrary document types.",
   ref="DESIGN.md 5 (C10)"),
 "C07": dict(
   text="Bounded model checking (z3) of the c14n package's own code, unit by unit: encodeString on EVERY byte string of length 0..3 (4 thorough): rejected iff not well-formed UTF-8 (RFC 3629), otherwise exactly the minimal-escape form of README rule 8; Integer on every int64; objects with up to three members (symbolic one-byte keys, values integer/null/bool/string): sorted, null members dropped, separators right, independent of input member order; arrays keep nulls and order; the float post-processing on symbolic formatter output keeps digits/exponent and yields README rule 7; the token layer on every decoder token stream of up to 4 (5) tokens: accepted iff exactly one complete value, never a panic.",
   note="encoding/json.Decoder and strconv.AppendFloat are contract stubs in symbolic runs (native replay uses the real ones on rendered text / the denoted float). Outside: nesting deeper than the token bound, long strings. Defects found and fixed: be45fb5, d74cb55, b5a11db, 1c33f8c.",
   ref="DESIGN.md 5 (C07)"),
 "C14": dict(
   text="Panic freedom on bounded skeletons, decided by symbolic execution with z3 path feasibility: invoice, payment and envelope skeletons whose optional pointers are nil or not and whose currency codes range over {absent, defined, other, undefined} (by choice) with symbolic numbers are driven through bill.calculate, Payment.calculate, DocumentRef.Calculate, Envelope.Verify/Header.Contains, the c14n token layer, and - for calculated invoices of eight regimes with every published addon switched on and optional parts (tax object, customer, tax id, line taxes) absent - Invoice.Validate with the real regime and addon validators; no feasible path may end in a Go run-time panic (nil dereference, index out of range, failed assertion, division by zero). Every panic found is replayed against the natively compiled code before it is reported.",
   note="Outside: arbitrary bytes through encoding/json / YAML, hangs, the CLI process, error keys and JSON serialisation of errors (reflection, I/O). Defects found and fixed: ececb16 (empty signature / nil header), 30b8846 (undefined currency), 1c33f8c (c14n empty input), 9131962, fea0aa2 and 57ce5ad (addon validators on an invoice without tax object).",
   ref="DESIGN.md 5 (C14)"),
 "C01": dict(
   text="Unit layer of the document calculation, bounded model checking with z3: from an arbitrary symbolic pre-state each step of the real code - calculateLine (price x quantity, percentage discount, percentage / rate-times-quantity charge), calculateDiscounts/Charges and their sums (with and without explicit base), advances, advance total and percentage due dates, foreign-currency item price conversion (exchange rate or alternative price) - yields exactly the half-away-from-zero rounding of the exact product / percentage at the documented working precision (>= currency+2 under 'precise', currency under 'currency'), fixed amounts are only raised, never rounded, before use, and line totals are sum - discounts + charges. A pipeline stage compares the real bill.calculate under 'precise' with exact rational arithmetic on 1-2 line skeletons (symbolic prices, optional line and document percentage discounts, VAT): every presented total is less than one minor unit from the unrounded exact value. The accounting identities of the whole pipeline under the currency rule are decided in C03, the fixpoint in C04.",
   note="Assumes go/ssa faithful, z3 sound, C05 summaries (lemmas re-run first). Outside: pipeline skeletons with charges, advances, several tax rates or more than two lines under 'precise'; sub-line breakdowns; regime-default rule selection. Known finding (open): double rounding under the currency rule when the price has more decimals than the currency and the quantity has decimals.",
   ref="DESIGN.md 5 (C01)"),
 "C15": dict(
   text="Only the sufficient condition the property's own mechanism names - shared definitions are never written after initialisation - is decided: the merge helpers (TagSet.Merge, CorrectionDefinition.Merge, Extensions.Merge, ScenarioSet.Merge) are executed symbolically on frozen operands over every combination of list length, spare capacity, duplicates and flags (any store into an operand, including its slices' spare capacity, is an event; aliasing is asserted through two merges from one receiver), and Invoice.supportedTags / correctionDef / scenarioSummary are run on the real regime and addon definitions of four regimes with those definitions frozen. Counterexamples are confirmed natively by comparing deep dumps of the operands.",
   note="Interleavings, the race detector, result equivalence under contention and bulk request/response pairing are outside: goroutines and channels are not encoded and a solver adds nothing to schedule enumeration. Defects found and fixed: a6924ab, 334da12.",
   ref="DESIGN.md 5 (C15)"),
 "C16": dict(
   text="Invoice-level correction and replication logic, decided by symbolic execution with z3 path feasibility over every combination of regime (none, ES, MX, PL, GR - real correction definitions imported from the registry), correction type option (none/credit/debit/corrective), reason, stamps (none / required / other provider, passed explicitly or through the source header), series, issue date and extension options, with symbolic code/series/identifier strings: Correct is refused unless the source has a code, a type is requested that the regime allows, the reason is present when required and every required stamp is supplied; when accepted the result has no code and no identifier, the requested type, and exactly one preceding reference carrying the source's identifier, type, series, code, issue date, the reason and the required stamps; the source value handed to Clone is untouched; a replica has no identifier / code and fresh dates.",
   note="Stubs: the final recalculation inside Correct (success), the clock. Outside: fidelity of schema.Object.Clone (JSON round trip by reflection), envelope-level header/signature immutability, CLI/bulk parsing, addon-specific definitions.",
   ref="DESIGN.md 5 (C16)"),
 "C18": dict(
   text="Bounded model checking with z3 of the reference rules against the published definition files (data/addons, data/regimes, data/catalogues, data/currency, read at run time as the oracle): (1) for every registered extension key and EVERY ASCII candidate value of 1..3 bytes (symbolic), tax.Extensions.Validate accepts only a listed code or a value matching the declared pattern; an undefined key is rejected; (2) a tax combo's category and rate key are accepted only if the regime that applies (the combo's country, else the document's) defines them; (3) wiring: in a valid calculated ES or FR invoice, replacing the currency by ANY three capital letters (symbolic; on a regime-less invoice: accepted iff published), the regime country by ANY two capital letters (symbolic), or the tag, addon key, category or rate key by any member of a pool of defined and undefined ones, validation by the real Invoice.ValidateWithContext chain succeeds only if the replacement is published.",
   note="The validation library's reflective dispatcher is modelled in the engine; rule code and all Validate methods run for real; normalisation is skipped. Outside: other reference positions and document types, values longer than 3 bytes, keys with more than 40 (thorough 300) codes, completeness beyond the unchanged skeleton. Defect found and fixed: 61a9149 (undefined currency accepted on regime-less invoices).",
   ref="DESIGN.md 5 (C18)"),
}

NA = {
 "C19": "finite regenerate-and-compare over registered definitions with no symbolic dimension: deciding it is a concrete run plus diff over json.Marshal of reflected definitions, not a solver query",
}
PENDING = "check not built yet (work in progress in this session)"

props = [json.loads(l)['id'] for l in open('/verif/properties.jsonl')]
checks, na = [], []
for p in props:
    if p in CLAIMED:
        c = CLAIMED[p]
        checks.append({
            "property_id": p,
            "quick_cmd": f"./check {p} quick",
            "thorough_cmd": f"./check {p} thorough",
            "evidence_file": f"/verif/evidence/{p}.json",
            "replay_cmd_template": "./check --replay {path}",
            "engine": "gsx",
            "level_claimed": {"category": "model_checking", "text": c["text"], "design_ref": c["ref"]},
            "level_note": c["note"],
            "technique": TECH,
        })
    else:
        na.append({"property_id": p, "reason": NA.get(p, PENDING)})

m = {
 "version": 1,
 "setup_cmd": "cd /verif/engine && GOFLAGS=-mod=mod GOPROXY=off GOSUMDB=off GOTOOLCHAIN=local go build -o /verif/bin/gsx ./cmd/gsx",
 "hooks": {
   "guard": "verif",
   "enable": "harness files under /verif/harness and the runtime /verif/vrt carry //go:build verif and are injected by overlay (packages.Config.Overlay for encoding, go test -tags verif -overlay for native replay); nothing is added to /repo",
   "baseline_off_cmd": BASE,
   "source_commits": [],
   "add_only": True,
 },
 "engines": [{"name": "gsx", "path": "/verif/engine", "serves_properties": sorted(CLAIMED), "kind_free_text": "bounded symbolic execution of go/ssa (fork of x/tools go/ssa/interp made symbolic) with a persistent z3 back end; native replay of counterexamples"}],
 "checks": checks,
 "not_applicable": na,
 "notes": "All checks: ./check <id> <tier>. Evidence is written by gsx itself. Known findings: /verif/known_findings.json (class predicates live in the harness sources).",
}
json.dump(m, open('/verif/MANIFEST.json', 'w'), indent=1)
print("claimed:", sorted(CLAIMED), "n/a:", [x['property_id'] for x in na])
