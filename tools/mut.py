#!/usr/bin/env python3
"""Apply a textual mutation to /repo, run a check, restore. usage: mut.py <prop> <file> <old> <new> [harness-regexp]"""
import subprocess, sys
prop, path, old, new = sys.argv[1:5]
flt = sys.argv[5] if len(sys.argv) > 5 else ''
full = '/repo/' + path
src = open(full).read()
if old not in src:
    print('MUTATION TEXT NOT FOUND'); sys.exit(2)
open(full, 'w').write(src.replace(old, new, 1))
try:
    b = subprocess.run('cd /repo && go build ./... 2>&1 | head -5', shell=True, capture_output=True, text=True)
    if b.stdout.strip():
        print('BUILD FAILS:', b.stdout); sys.exit(2)
    cmd = ['/verif/bin/gsx', '-prop', prop, '-tier', 'quick']
    if flt: cmd += ['-harness', flt]
    r = subprocess.run(cmd, capture_output=True, text=True)
    lines = [l for l in r.stdout.splitlines() if l.startswith(('VIOLATION', 'SUMMARY', 'KNOWN', 'ENCODING', 'VACUOUS'))]
    v = [l for l in lines if l.startswith('VIOLATION')]
    print('exit', r.returncode, '| violations', len(v))
    for l in lines[:4]: print('  ', l[:260])
finally:
    open(full, 'w').write(src)
    subprocess.run('cd /repo && git status --short', shell=True)
