#!/bin/bash
# usage: seed2.sh <ID> <pkgdir> <TestName> <check-id>     e.g. seed2.sh C02b tax TestSeedC02b... C02
# Like seed.sh, but the check runs against the scratch worktree itself (VERIF_REPO), so /repo is never touched:
# usable while a background run is using /repo.
set -u
export GOFLAGS=-mod=mod GOPROXY=off GOSUMDB=off GOTOOLCHAIN=local
ID=$1; PKG=$2; TEST=$3; CHK=$4
W=/tmp/seed_$ID; S=/tmp/seedout_$ID; OUT=/verif/seeded/$ID
cd $W || exit 2
[ -d $W/_seed ] && { rm -rf $S; mv $W/_seed $S; }
git checkout -q -- . ; git apply $S/patch.diff || { echo "patch does not apply"; exit 2; }
demo=$PKG/zz_seed_demo_test.go
build=$(go build ./... 2>&1 | head -3)
suite=$(go test ./... 2>&1 | grep -v "^ok\|no test files" | head -5)
cp $S/demo_test.go $demo
with=$(go test ./$PKG -run "$TEST" -count=1 2>&1 | tail -1)
git apply -R $S/patch.diff
without=$(go test ./$PKG -run "$TEST" -count=1 2>&1 | tail -1)
rm -f $demo; git checkout -q -- .
echo "build:[$build] suite:[$suite] demo-with:[$with] demo-without:[$without]"
case "$with" in FAIL*|*FAIL*) ;; *) echo "demo does not fail with the change"; exit 3;; esac
case "$without" in ok*) ;; *) echo "demo does not pass without the change"; exit 3;; esac
[ -z "$build" ] && [ -z "$suite" ] || { echo "build or suite not clean"; exit 3; }
mkdir -p $OUT; cp $S/patch.diff $OUT/patch.diff; cp $S/demo_test.go $OUT/demo_test.go
git apply $S/patch.diff
res=$(VERIF_REPO=$W /verif/check $CHK quick 2>/dev/null | grep "^VIOLATION\|^SUMMARY\|^VACUOUS" | head -3)
git checkout -q -- .
echo "$res" | cut -c1-300
v=$(echo "$res" | grep -c "^VIOLATION")
python3 - "$OUT" "$S/meta.json" "$CHK" "$v" "$with" "$without" <<'PY'
import json,sys
out,meta,chk,v,w,wo=sys.argv[1:7]
m=json.load(open(meta))
m["confirmed"]={"suite_passes_with_change":True,"demo_with_change":w,"demo_without_change":wo,
 "ran":["go build ./... && go test ./... in a scratch worktree with the patch","demo test with and without the patch","VERIF_REPO=<scratch worktree with the patch> ./check %s quick"%chk]}
m["check"]={"id":chk,"tier":"quick","detected":int(v)>0}
json.dump(m,open(out+"/meta.json","w"),indent=1)
print("DETECTED" if int(v)>0 else "MISSED")
PY
