#!/bin/bash
# usage: seed.sh <ID> <pkgdir> <TestName> [check-id]   e.g. seed.sh C05 num TestSeedC05
# Confirms a seeded change produced in /tmp/seed_<ID> (suite passes with it, demo fails with it and passes
# without it), stores it under /verif/seeded/<ID>/ and runs the check against /repo with the patch applied.
set -u
export GOFLAGS=-mod=mod GOPROXY=off GOSUMDB=off GOTOOLCHAIN=local
ID=$1; PKG=$2; TEST=$3; CHK=${4:-$1}; NAME=${5:-$ID}
W=/tmp/seed_$ID; S=/tmp/seedout_$ID; OUT=/verif/seeded/$NAME
cd $W || exit 2
[ -d $W/_seed ] && { rm -rf $S; mv $W/_seed $S; }
git checkout -q -- . ; git apply $S/patch.diff || { echo "patch does not apply"; exit 2; }
demo=$PKG/zz_seed_demo_test.go
build=$(go build ./... 2>&1 | head -3)
suite=$(go test ./... 2>&1 | grep -v "^ok\|no test files" | head -5)
cp $S/demo_test.go $demo
with=$(go test ./$PKG -run "$TEST" -count=1 2>&1 | tail -1)
git apply -R $S/patch.diff
without=$(go test ./$PKG -run "$TEST" -count=1 2>&1 | tail -1)
rm -f $demo; git checkout -q -- .
echo "build:[$build] suite:[$suite] demo-with:[$with] demo-without:[$without]"
case "$with" in FAIL*|*FAIL*) ;; *) echo "demo does not fail with the change"; exit 3;; esac
case "$without" in ok*) ;; *) echo "demo does not pass without the change"; exit 3;; esac
[ -z "$build" ] && [ -z "$suite" ] || { echo "build or suite not clean"; exit 3; }
mkdir -p $OUT; cp $S/patch.diff $OUT/patch.diff; cp $S/demo_test.go $OUT/demo_test.go
# run the check on /repo with the patch
cd /repo && git apply $OUT/patch.diff || { echo "patch does not apply to /repo"; exit 2; }
res=$(/verif/check $CHK quick 2>/dev/null | grep "^VIOLATION\|^SUMMARY\|^VACUOUS" | head -3)
git -C /repo checkout -q -- .
echo "$res" | cut -c1-300
v=$(echo "$res" | grep -c "^VIOLATION")
python3 - "$OUT" "$S/meta.json" "$CHK" "$v" "$with" "$without" <<'PY'
import json,sys
out,meta,chk,v,w,wo=sys.argv[1:7]
m=json.load(open(meta))
m["confirmed"]={"suite_passes_with_change":True,"demo_with_change":w,"demo_without_change":wo,
 "ran":["go build ./... && go test ./... in a scratch worktree with the patch","demo test with and without the patch","git -C /repo apply patch.diff; ./check %s quick; git -C /repo checkout -- ."%chk]}
m["check"]={"id":chk,"tier":"quick","detected":int(v)>0}
json.dump(m,open(out+"/meta.json","w"),indent=1)
print("DETECTED" if int(v)>0 else "MISSED")
PY
