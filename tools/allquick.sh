#!/bin/bash
# Runs every claimed check's quick command in sequence (as MANIFEST.json lists them) and prints one line each.
cd "$(dirname "$0")/.."
for p in $(python3 -c "import json;print(' '.join(c['property_id'] for c in json.load(open('MANIFEST.json'))['checks']))"); do
  t0=$(date +%s)
  out=$(./check $p quick 2>&1); code=$?
  echo "$p exit=$code $(( $(date +%s) - t0 ))s $(echo "$out" | grep '^SUMMARY' | cut -c1-170)"
  echo "$out" | grep -E '^VIOLATION|MISMATCH|^VACUOUS|SOLVER-ERR' | cut -c1-250
done
