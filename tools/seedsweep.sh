#!/bin/bash
# Re-tests every recorded seeded change against the checks at the current /repo HEAD, without touching /repo:
# each patch is applied in a scratch worktree which is handed to the check through VERIF_REPO.
# usage: tools/seedsweep.sh [id ...]     output: one line per seed (DETECTED / MISSED / DOES-NOT-APPLY)
export GOFLAGS=-mod=mod GOPROXY=off GOSUMDB=off GOTOOLCHAIN=local
V=${VERIF_DIR:-/verif}
ids="$@"; [ -z "$ids" ] && ids=$(ls $V/seeded)
W=/tmp/seedsweep_wt
git -C /repo worktree remove --force $W 2>/dev/null; git -C /repo worktree prune
git -C /repo worktree add -q --detach $W HEAD || exit 2
for id in $ids; do
  chk=$(python3 -c "import json;print(json.load(open('$V/seeded/$id/meta.json'))['check']['id'])")
  (cd $W && git checkout -q -- . && git apply $V/seeded/$id/patch.diff 2>/dev/null) || { echo "$id check=$chk DOES-NOT-APPLY"; continue; }
  res=$(VERIF_REPO=$W $V/check $chk quick 2>/dev/null | grep "^VIOLATION\|^SUMMARY" | head -2)
  v=$(echo "$res" | grep -c "^VIOLATION")
  if [ "$v" -gt 0 ]; then echo "$id check=$chk DETECTED"; else echo "$id check=$chk MISSED  $(echo "$res" | head -1 | cut -c1-160)"; fi
  (cd $W && git checkout -q -- .)
done
git -C /repo worktree remove --force $W
